import sys
pid=sys.argv[1]
prop=open(f'/tmp/prop-{pid}.txt').read()
print(f"""You are helping to evaluate a verification setup for the Go library github.com/mfcochauxlaberge/jsonapi (JSON:API marshaling/unmarshaling, URL parsing, schema, filtering, sorting, SoftCollection). You have your own scratch git worktree of the library at /tmp/wt-{pid} (a checkout of the current HEAD). Work ONLY inside /tmp/wt-{pid}. Never touch /repo or /verif, and do not read anything under /verif.

Environment: there is no network. Before every go command export: GOFLAGS=-mod=mod GOPROXY=off GOSUMDB=off GOTOOLCHAIN=local . The library's own test suite is run with:  cd /tmp/wt-{pid} && go test -vet=off -count=1 ./...   (it passes on the unmodified worktree).

Here is a semantic property the library is supposed to satisfy:

{prop}
YOUR TASK: produce TWO different, realistic code changes ("mutants" A and B) to the library's non-test source files, each of which
  (1) still compiles,
  (2) still passes the library's existing test suite unchanged (run it to confirm),
  (3) BREAKS the property above, and
  (4) needs something specific to manifest - a particular kind of input, a particular multi-step sequence of operations, a particular interleaving, an unusual value, or two cooperating code sites that each look fine alone - rather than something any ordinary use would expose immediately. Think of bugs a maintainer could plausibly introduce in a refactoring or an 'optimisation' (off-by-one, wrong branch for one type, lost copy, cache added, order dependence, missing case, swapped arguments, early return), not sabotage. The two mutants should touch different mechanisms.

For each mutant X in {{A, B}} create the directory /tmp/wt-{pid}/_mutants/X/ containing:
  - patch.diff : the output of `git diff` for the change (library source files only; it must apply to a clean checkout with `git apply`),
  - a demonstration: a Go test file named zz_demo_test.go (package jsonapi or jsonapi_test, written so that it can be copied into the repository root) that FAILS with the patch applied and PASSES without it,
  - NOTES.md : which clause of the property is broken, what exactly is needed for the bug to manifest, and the exact commands you ran with their outcome (suite with patch: pass; demo with patch: fail; demo without patch: pass).
Procedure per mutant: edit the source, run the suite, write and run the demo (it must fail), save `git diff -- . ':!_mutants' ':!zz_demo_test.go' > _mutants/X/patch.diff`, copy the demo into _mutants/X/, then `git checkout -- . && rm -f zz_demo_test.go` and run the demo once more on the clean tree to confirm it passes there (copy it in temporarily, then remove it). Leave the worktree clean at the end except for the _mutants directory.

Do not weaken or edit existing tests. Do not make changes that fail to compile. Keep each patch small (a few lines). Report briefly at the end what the two mutants are.""")
