import sys,os
pid=sys.argv[1]
base=open(f'/tmp/prompt-{pid}.txt').read()
prev=[]
for l in 'ABCDEF':
    p=f'/verif/seeded/{pid}-{l}/NOTES.md'
    if os.path.exists(p):
        lines=[x.strip() for x in open(p) if x.strip()]
        prev.append(f"  {l}. "+' '.join(lines[:2])[:260])
extra=f"""

ADDITIONAL INSTRUCTIONS FOR THIS ROUND (they override the letters above):
Earlier attempts already produced these six changes for this property:
{chr(10).join(prev)}
Produce two NEW changes and call them G and H (directories /tmp/wt-{pid}/_mutants/G and /tmp/wt-{pid}/_mutants/H). They must differ in mechanism AND in the clause they break from all six above. A monitoring harness that replays thousands of randomly generated inputs and call sequences against a reference model has caught all six; to escape such a harness a defect typically has to depend on something a generator is unlikely to produce or a model is unlikely to track: a particular relation BETWEEN two inputs (equal lengths, one a prefix / permutation / case-variant of the other, same ID under two types, same name as attribute in one type and relationship in another), a boundary only reachable with a specific count (exactly 8 or 9 elements, exactly 64, more than 255, more than 1024), a value only produced by a specific earlier library call (a resource obtained from UnmarshalPartialResource, Range, Copy or a SoftCollection and then fed to another operation), aliasing between arguments (the same slice / map / pointer passed twice), an operation repeated three or more times, or an interaction between two features of the library that are usually exercised separately. Choose realistic maintainer mistakes that have such a dependence, and say precisely in NOTES.md what the dependence is. Each change must violate a clause of the statement literally (quote the clause).
For the git diff pathspec use ':(exclude)_mutants' ':(exclude)zz_demo_test.go' (the ':!_mutants' form is rejected by this git). Name the demo test function so that it matches the regexp 'ZZ|Demo|demo'. If a demonstration needs `go test -race`, write "DEMO NEEDS -race" as the first line of NOTES.md.
"""
open(f'/tmp/prompt4-{pid}.txt','w').write(base+extra)
