import sys,os
pid=sys.argv[1]
base=open(f'/tmp/prompt-{pid}.txt').read()
prev=[]
for l in 'ABCDEFGHIJ':
    p=f'/verif/seeded/{pid}-{l}/NOTES.md'
    if os.path.exists(p):
        lines=[x.strip() for x in open(p) if x.strip()]
        prev.append(f"  {l}. "+' '.join(lines[:2])[:240])
extra=f"""

ADDITIONAL INSTRUCTIONS FOR THIS ROUND (they override the letters above):
Earlier attempts already produced these ten changes for this property:
{chr(10).join(prev)}
Produce two NEW changes and call them K and L (directories /tmp/wt-{pid}/_mutants/K and /tmp/wt-{pid}/_mutants/L). They must differ in mechanism AND, as far as the statement allows, in the clause they break from all ten above. Before choosing, read the anchored source files completely and list for yourself which functions, branches and helper paths NONE of the ten earlier changes touched; prefer those. This round is about REALISM: write each change as a commit a competent maintainer could really make with a good motive, and give it that shape - (a) a performance optimisation (fewer allocations, a fast path, avoiding reflection or a re-sort, reusing a buffer, precomputing something), (b) a feature or API extension (a new option, a new accepted syntax, support for one more case) whose implementation disturbs existing behaviour in a corner, (c) a robustness or validation fix that over- or under-shoots, (d) a modernisation (replacing a hand-written loop by slices/maps/strings/strconv helpers, generics, switching a data structure) that is almost but not exactly equivalent, or (e) a bug fix for one path that forgets the sibling path (soft vs wrapped, to-one vs to-many, nullable vs not, collection vs single resource, full vs partial). Choose two different shapes. The change should be 5-40 lines, read as plausible in code review, and carry a one-line commit message in NOTES.md as its first line ("commit: ..."). The defect must be a real violation of a clause of the statement (quote the clause) and should survive ordinary use: say precisely which inputs or call sequences expose it.
Do not use `git stash` (the stash is shared between worktrees); to go back to a clean tree use `git checkout -- .`.
For the git diff pathspec use ':(exclude)_mutants' ':(exclude)zz_demo_test.go' (the ':!_mutants' form is rejected by this git). Name the demo test function so that it matches the regexp 'ZZ|Demo|demo'. If a demonstration needs `go test -race`, write "DEMO NEEDS -race" as the second line of NOTES.md.
"""
open(f'/tmp/prompt6-{pid}.txt','w').write(base+extra)
