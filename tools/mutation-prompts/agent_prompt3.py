import sys,os
pid=sys.argv[1]
base=open(f'/tmp/prompt-{pid}.txt').read()
prev=[]
for l in 'ABCD':
    p=f'/verif/seeded/{pid}-{l}/NOTES.md'
    if os.path.exists(p):
        lines=[x.strip() for x in open(p) if x.strip()]
        prev.append(f"  {l}. "+' '.join(lines[:3])[:380])
extra=f"""

ADDITIONAL INSTRUCTIONS FOR THIS ROUND (they override the letters above):
Earlier attempts already produced these four changes for this property:
{chr(10).join(prev)}
Produce two NEW changes and call them E and F (directories /tmp/wt-{pid}/_mutants/E and /tmp/wt-{pid}/_mutants/F). They must be genuinely different from all four above: break clauses of the statement that were not attacked yet, or go through entry points / types / code paths not used yet. Aim for the hardest-to-notice realistic defects you can think of: only one of several equivalent entry points affected; only one attribute kind or one collection implementation; only values at a boundary; only when two features are combined (e.g. a nullable kind AND a wrapped struct AND a descending rule); only on the second call (state left behind by the first); only for names or IDs with a particular shape; order dependence that shows only with three or more elements. Read the statement and the 'Quantified over' text clause by clause and make sure each of your two changes violates a clause literally.
For the git diff pathspec use ':(exclude)_mutants' ':(exclude)zz_demo_test.go' (the ':!_mutants' form is rejected by this git). Name the demo test function so that it matches the regexp 'ZZ|Demo|demo'. If a demonstration needs `go test -race`, write "DEMO NEEDS -race" as the first line of NOTES.md.
"""
open(f'/tmp/prompt3-{pid}.txt','w').write(base+extra)
