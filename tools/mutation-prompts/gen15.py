import sys,os,glob
pid=sys.argv[1]
base=open(f'/tmp/prompt-{pid}.txt').read()
prev=[]
for d in sorted(glob.glob(f'/verif/seeded/{pid}-*')):
    p=d+'/NOTES.md'
    if os.path.exists(p):
        lines=[x.strip() for x in open(p) if x.strip()]
        prev.append(f"  {os.path.basename(d)}. "+' '.join(lines[:2])[:140])
extra=f"""

ADDITIONAL INSTRUCTIONS FOR THIS ROUND (they override the letters above):
Earlier attempts already produced these changes for this property (all of them are detected by the verification setup by now):
{chr(10).join(prev)}
Produce ONE NEW change and call it N (directory /tmp/wt-{pid}/_mutants/N); you have about 15 minutes, so stop and report as soon as it is confirmed. They must differ in mechanism from all of the above. Do NOT reuse these recurring mechanisms: caches and pools, case-insensitive matching, lookups keyed by concatenated names, goroutines, struct types identified by name, json tag options, in-place filtering of a caller's slice, non-strict sort comparisons, UTC normalisation of times, escaping of links, early returns based on equal counts, reserved field names (id/type/meta), explicit plus signs in sort rules, recursion depth limits, defensive getters, pointers written through. Read the anchored source files completely first. Then pick code paths with this method: list every exported function and method the property's statement is about, and for each one list the unexported helpers and the OTHER exported functions it calls; choose a change in a helper or in a neighbouring exported function whose contract the property silently depends on (for example Type / Attr / Rel helpers, GetZeroValue, GetAttrType, Identifier(s) helpers, Link and Meta marshaling, error constructors, SimpleURL, Params, Copy/New of the other resource implementation, collection implementations). Think about: numeric conversions between widths and signedness; unicode and byte-versus-rune handling of names and IDs; JSON numbers versus strings; time precision and zones at parse time; the difference between a missing member, an explicit null and an empty value at EVERY level of a payload; behaviour for the second and later elements of a list (state carried from one element to the next inside a loop: a variable declared outside the loop, an error kept from an earlier iteration, a buffer reused); what happens when two inputs are the same object (aliasing between arguments). Each change must read as a commit a competent maintainer could make with a good motive (performance, feature, robustness, modernisation, de-duplication, a fix for one path that forgets its sibling), 5-60 lines, with a one-line commit message as the first line of NOTES.md ("commit: ..."). Quote the clause it breaks and say precisely which inputs or call sequences expose it; the existing test suite must still pass.
Do not use `git stash`; to go back to a clean tree use `git checkout -- . && git clean -fd -e _mutants`.
For the git diff pathspec use ':(exclude)_mutants' ':(exclude)zz_demo_test.go' (if you add new source files run `git add -N .` before `git diff`, then `git reset -q`). Name the demo test function so that it matches the regexp 'ZZ|Demo|demo'. If a demonstration needs `go test -race`, write "DEMO NEEDS -race" as the second line of NOTES.md.
"""
open(f'/tmp/prompt15-{pid}.txt','w').write(base+extra)
