import sys,os,re
pid=sys.argv[1]
base=open(f'/tmp/prompt-{pid}.txt').read()
prev=[]
for l in 'AB':
    p=f'/verif/seeded/{pid}-{l}/NOTES.md'
    if os.path.exists(p):
        lines=[x.strip() for x in open(p) if x.strip()]
        prev.append(' '.join(lines[:4])[:500])
extra=f"""

ADDITIONAL INSTRUCTIONS FOR THIS ROUND (they override the letters above):
An earlier attempt already produced these two changes for this property:
  1. {prev[0] if prev else '(none)'}
  2. {prev[1] if len(prev)>1 else '(none)'}
Produce two NEW changes and call them C and D (directories /tmp/wt-{pid}/_mutants/C and /tmp/wt-{pid}/_mutants/D). They must break OTHER clauses of the property, or go through OTHER functions / code paths / files than the two above, and should be subtler: prefer defects that only show for a narrow class of inputs (one attribute kind, one collection implementation, one cardinality, one position such as first/last, an empty or single-element case, a boundary value, a particular combination of two parameters), or only after a specific sequence of calls, or only through one of several entry points. Read the property statement clause by clause and pick clauses not yet attacked.
For the git diff pathspec use ':(exclude)_mutants' ':(exclude)zz_demo_test.go' (the ':!_mutants' form is rejected by this git). Name the demo test function so that it matches the regexp 'ZZ|Demo|demo'.
"""
open(f'/tmp/prompt2-{pid}.txt','w').write(base+extra)
