import sys,os,glob,re
pid=sys.argv[1]
base=open(f'/tmp/prompt-{pid}.txt').read()
prev=[]
for d in sorted(glob.glob(f'/verif/seeded/{pid}-*')):
    p=d+'/NOTES.md'
    if os.path.exists(p):
        lines=[x.strip() for x in open(p) if x.strip()]
        prev.append(f"  {os.path.basename(d)}. "+' '.join(lines[:2])[:150])
extra=f"""

ADDITIONAL INSTRUCTIONS FOR THIS ROUND (they override the letters above):
Earlier attempts already produced these changes for this property (all of them are detected by the verification setup by now):
{chr(10).join(prev)}
Produce two NEW changes and call them Y and Z (directories /tmp/wt-{pid}/_mutants/Y and /tmp/wt-{pid}/_mutants/Z). They must differ in mechanism from all of the above. Do NOT reuse these recurring mechanisms: caches and pools, case-insensitive name matching, lookups keyed by concatenated names, goroutines, struct types identified by name, json tag options, in-place filtering of a caller's slice, `<=` in a sort comparison, UTC normalisation of times, path-escaping of links. Before choosing, read the anchored source files completely, then go through the "Quantified over" text item by item and ask for each item: which line of code makes the property hold for THIS item, and what small, well-motivated edit of that line would break it for this item only? Prefer items and code paths that none of the earlier changes touched. Useful directions: values at the edge of the stated domain (largest / smallest / empty / single-element / exactly-at-threshold); inputs in which two things are EQUAL (equal IDs in different types, equal names in different roles, equal sort keys, repeated parameters) or in which one is a PREFIX of the other; arguments that are legal but unusual for the API (nil vs empty maps and slices, pointer vs value, a zero Type, hand-written literals instead of values made by the library's constructors, a value produced by one exported function and fed to another); the SECOND call on the same objects (state left behind by the first call in arguments, receivers or results); the order in which two independent steps happen (validation before/after mutation, copy before/after modification, sort before/after truncation); integer conversions and length arithmetic; the error path of a helper whose result is used anyway. Each change must read as a commit a competent maintainer could make with a good motive (performance, feature, robustness, modernisation, de-duplication, a fix for one path that forgets its sibling), 5-60 lines, with a one-line commit message as the first line of NOTES.md ("commit: ..."). Quote the clause it breaks and say precisely which inputs or call sequences expose it; the existing test suite must still pass.
Do not use `git stash`; to go back to a clean tree use `git checkout -- . && git clean -fd -e _mutants`.
For the git diff pathspec use ':(exclude)_mutants' ':(exclude)zz_demo_test.go' (if you add new source files run `git add -N .` before `git diff`, then `git reset -q`). Name the demo test function so that it matches the regexp 'ZZ|Demo|demo'. If a demonstration needs `go test -race`, write "DEMO NEEDS -race" as the second line of NOTES.md.
"""
open(f'/tmp/prompt13-{pid}.txt','w').write(base+extra)
