#!/usr/bin/env python3
"""tools/kf.py <property> <signature[,signature...]> <known|fixed> <commit-or-> <what>  — edits known_findings.json (never at check time)."""
import json, sys, os
ROOT = os.path.dirname(os.path.dirname(os.path.abspath(__file__)))
p = os.path.join(ROOT, 'known_findings.json')
d = json.load(open(p))
prop, sigs, status, commit, what = sys.argv[1:6]
for sig in sigs.split(','):
    d['findings'] = [f for f in d['findings'] if not (f['property'] == prop and f['signature'] == sig)]
    e = {"property": prop, "signature": sig, "status": status, "what": what}
    if status == 'fixed':
        e['commit'] = commit
        e['line'] = f"fixed: property={prop} {commit} {what}"
    else:
        e['line'] = f"KNOWN-FINDING: property={prop} {what}"
    d['findings'].append(e)
d['findings'].sort(key=lambda f: (f['property'], f['status'], f['signature']))
d['_format'] = "status=known: the check prints the KNOWN-FINDING line for an observed violation with exactly this signature and does not count it. status=fixed: suppresses nothing; kept as a record (line 'fixed: property=<id> <commit> <what failed>') and the witness stays in the check's directed cases."
json.dump(d, open(p, 'w'), indent=1, ensure_ascii=False)
