#!/usr/bin/env python3
"""Regenerates /verif/MANIFEST.json from the table below (claimed checks) and properties.jsonl."""
import json, os
ROOT = os.path.dirname(os.path.dirname(os.path.abspath(__file__)))
props = [json.loads(l) for l in open(os.path.join(ROOT, 'properties.jsonl'))]

# id -> (technique, level text, level note)
CHECKS = {}
def claim(pid, technique, text, note):
    CHECKS[pid] = (technique, text, note)

exec(open(os.path.join(ROOT, 'tools', 'claims.py')).read())

hooks_commits = []
hc = os.path.join(ROOT, 'tools', 'hook_commits.txt')
if os.path.exists(hc):
    hooks_commits = [l.strip() for l in open(hc) if l.strip()]

m = {
 "version": 1,
 "setup_cmd": "bin/setup",
 "hooks": {
  "guard": "verif",
  "enable": "go build -tags verif (harness module /verif/harness with `replace github.com/mfcochauxlaberge/jsonapi => /repo`; bin/build)",
  "baseline_off_cmd": "cd /repo && GOFLAGS=-mod=mod GOPROXY=off GOSUMDB=off GOTOOLCHAIN=local go test -vet=off -count=1 -json ./...",
  "source_commits": hooks_commits,
  "add_only": True,
 },
 "engines": [{
  "name": "verifmon",
  "path": "harness/",
  "serves_properties": sorted(CHECKS),
  "kind_free_text": "runtime monitoring: seeded hostile workloads drive the real library in child processes; every call is recorded at the API boundary and judged online by an independent reference model / law checker; Go race detector for C12",
 }],
 "checks": [],
 "not_applicable": [],
 "notes": "Exit codes of every command: 0 held on everything observed, 1 VIOLATION (with replay file), 2 INCONCLUSIVE (build failure, watchdog, or an observation floor missed; never printed as VIOLATION). known_findings.json lists recorded genuine defects by signature.",
}
for p in props:
    pid = p['id']
    if pid in CHECKS:
        tech, text, note = CHECKS[pid]
        m['checks'].append({
         "property_id": pid,
         "quick_cmd": f"bin/check {pid} quick",
         "thorough_cmd": f"bin/check {pid} thorough",
         "evidence_file": f"/verif/evidence/{pid}.json",
         "replay_cmd_template": "bin/replay {path}",
         "engine": "verifmon",
         "level_claimed": {"category": "exploration", "text": text, "design_ref": f"DESIGN.md section 5, {pid}"},
         "level_note": note,
         "technique": tech,
        })
    else:
        m['not_applicable'].append({"property_id": pid, "reason": "check not built yet (work in progress; see DESIGN.md section 5)"})
json.dump(m, open(os.path.join(ROOT, 'MANIFEST.json'), 'w'), indent=1)
print("claimed:", sorted(CHECKS), "unclaimed:", [x['property_id'] for x in m['not_applicable']])
