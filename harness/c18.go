package main

import (
	"fmt"
	"reflect"
	"sort"
	"strings"

	"github.com/mfcochauxlaberge/jsonapi"
)

// C18 — copies and new instances are independent of their source.
type c18 struct{}

func init() { register(c18{}) }

func (c18) ID() string { return "C18" }
func (c18) Size(tier string) Size {
	if tier == "thorough" {
		return Size{Batches: 16, Cases: 25000}
	}
	return Size{Batches: 16, Cases: 2500}
}
func (c18) Rule() string {
	return "case = resource (soft or struct-backed) over random kinds that always include non-empty []byte, *[]byte and to-many lists of >= 2 IDs in descending order (one to-many in three sources was never set); Copy(), New() and Type.Copy() are taken, then a seeded history of 1-12 mutations is applied to one side at a time (Set, soft-type AddAttr/AddRel/RemoveField - also through the exported Type field and through the maps Attrs()/Rels() return -, MarshalResource with relationship data, Filter.IsAllowed with a to-many '=', in-place writes into slices obtained from Get); a full snapshot (id, type name, field tables, every value, sequence-exact) of the untouched side is compared before/after every mutation, and backing arrays of slice values are compared right after copying. Non-trivial = resource with >= 1 non-empty slice-valued field; distinct = hash of spec + history."
}
func (c18) Assumptions() []string {
	return []string{"writes through nullable scalar pointers (*int etc.) are not among the statement's operations and are not performed; element writes into the slice a *[]byte points to are (it is a slice obtained from the resource)",
		"backing-array identity is read with reflect.Value.Pointer on non-empty slices"}
}
func (c18) Floors(tier string, c map[string]int64) []string {
	var out []string
	for _, k := range []string{"mut/set", "mut/marshal", "mut/filter", "mut/inplace-bytes", "mut/inplace-ids", "mut/inplace-nbytes", "mut/type-edit", "impl/soft", "impl/wrapped", "typecopy", "single_kind_types"} {
		if c[k] == 0 {
			out = append(out, "never observed: "+k)
		}
	}
	return out
}

type resSnap struct {
	ID, Type string
	Attrs    string
	Rels     string
	Vals     map[string]string
}

func (s resSnap) diff(o resSnap) string {
	if s.ID != o.ID {
		return fmt.Sprintf("id %q -> %q", s.ID, o.ID)
	}
	if s.Type != o.Type {
		return fmt.Sprintf("type name %q -> %q", s.Type, o.Type)
	}
	if s.Attrs != o.Attrs {
		return fmt.Sprintf("attribute table %s -> %s", s.Attrs, o.Attrs)
	}
	if s.Rels != o.Rels {
		return fmt.Sprintf("relationship table %s -> %s", s.Rels, o.Rels)
	}
	for k, v := range s.Vals {
		if o.Vals[k] != v {
			return fmt.Sprintf("field %q: %s -> %s", k, v, o.Vals[k])
		}
	}
	if len(s.Vals) != len(o.Vals) {
		return "number of fields changed"
	}
	return ""
}

func (s resSnap) diffClass(o resSnap) string {
	if s.ID != o.ID {
		return "id"
	}
	if s.Type != o.Type || s.Attrs != o.Attrs || s.Rels != o.Rels {
		return "structure"
	}
	for k, v := range s.Vals {
		if o.Vals[k] != v {
			pre := strings.SplitN(v, ":", 2)[0]
			return "value/" + pre
		}
	}
	return "fields"
}

// snapshotRes reads everything the Resource interface exposes.
func snapshotRes(res jsonapi.Resource) resSnap {
	s := resSnap{Vals: map[string]string{}}
	s.ID, _ = res.Get("id").(string)
	s.Type = res.GetType().Name
	attrs, rels := res.Attrs(), res.Rels()
	var sb strings.Builder
	for _, k := range sortedKeys(attrs) {
		a := attrs[k]
		fmt.Fprintf(&sb, "[%s %d %v]", a.Name, a.Type, a.Nullable)
		v, ok := valFromGo(a.Type, a.Nullable, res.Get(a.Name))
		if !ok {
			s.Vals[k] = "unreadable:" + describeGo(res.Get(a.Name))
		} else {
			s.Vals[k] = v.String()
		}
	}
	s.Attrs = sb.String()
	sb.Reset()
	for _, k := range sortedKeys(rels) {
		r := rels[k]
		fmt.Fprintf(&sb, "[%s]", relStr(r))
		if r.ToOne {
			s.Vals[k] = fmt.Sprintf("to-one:%q", res.Get(r.FromName))
		} else {
			s.Vals[k] = fmt.Sprintf("to-many:%q", res.Get(r.FromName))
		}
	}
	s.Rels = sb.String()
	return s
}

// sliceAddrs lists the backing arrays of every non-empty slice value.
func sliceAddrs(res jsonapi.Resource) map[string]uintptr {
	out := map[string]uintptr{}
	for k, a := range res.Attrs() {
		if a.Type != KBytes {
			continue
		}
		v := res.Get(a.Name)
		if v == nil {
			continue
		}
		rv := reflect.ValueOf(v)
		if rv.Kind() == reflect.Ptr {
			if rv.IsNil() {
				continue
			}
			rv = rv.Elem()
		}
		if rv.Kind() == reflect.Slice && rv.Cap() > 0 { // also empty slices with spare capacity: append writes there
			out[k] = rv.Pointer()
		}
	}
	for k, r := range res.Rels() {
		if r.ToOne {
			continue
		}
		if ids, ok := res.Get(r.FromName).([]string); ok && cap(ids) > 0 {
			out[k] = reflect.ValueOf(ids).Pointer()
		}
	}
	return out
}

func genC18Type(r *RNG, wrapped bool) TypeSpec {
	t := TypeSpec{Name: r.Pick(typeNamePool), Wrapped: wrapped}
	names := genDistinctNames(r, fieldNamePool, len(fieldNamePool))
	t.Attrs = append(t.Attrs, AttrSpec{Name: "bytes", Kind: KBytes}, AttrSpec{Name: "nbytes", Kind: KBytes, Null: true})
	na := r.Range(0, 5)
	for i := 0; i < na; i++ {
		t.Attrs = append(t.Attrs, AttrSpec{Name: names[i], Kind: allKinds[r.Intn(len(allKinds))], Null: r.Bool()})
	}
	t.Rels = append(t.Rels, RelSpec{Name: "many", ToType: "x"}, RelSpec{Name: "one", ToOne: true, ToType: "x"})
	if r.Bool() {
		t.Rels = append(t.Rels, RelSpec{Name: "many2", ToType: "y"})
	}
	// types with only one kind of field: their other map is empty (or nil) at copy time
	switch r.Intn(6) {
	case 0:
		t.Rels = nil
	case 1:
		t.Attrs = nil
	}
	return t
}

type c18mut struct {
	Side  int      `json:"side"` // 0 source, 1 copy
	Kind  string   `json:"kind"`
	Field string   `json:"field,omitempty"`
	Val   *Val     `json:"val,omitempty"`
	Many  []string `json:"many,omitempty"`
	One   string   `json:"one,omitempty"`
}

func (m c18) Case(c *Ctx, r *RNG) {
	t := genC18Type(r, r.Bool())
	rs := genResource(r, &t, genID(r))
	// the interesting fields are always populated
	if t.Attr("bytes") != nil {
		rs.Attrs["bytes"] = Val{K: KBytes, Bytes: []byte{9, 8, 7, byte(r.Intn(256))}}
		if r.Chance(4, 5) {
			rs.Attrs["nbytes"] = Val{K: KBytes, Null: true, Bytes: []byte{3, 2, 1}}
		} else if r.Bool() {
			// a non-nil pointer to an empty (nil or zero-length) byte string
			rs.Attrs["nbytes"] = Val{K: KBytes, Null: true, NilSlice: r.Bool()}
			c.Count("sources_with_pointer_to_empty_bytes")
		}
	}
	if t.Rel("many") != nil {
		rs.ToMany["many"] = []string{"z9", "m5", "a1"}[:r.Range(1, 3)]
	}
	if t.Rel("many2") != nil {
		rs.ToMany["many2"] = []string{"y", "x"}[:r.Range(1, 2)]
	}
	// ... except that a to-many relationship may never have been set (a nil slice in a struct) next to ones that were
	if t.Rel("many2") != nil && r.Chance(1, 3) {
		delete(rs.ToMany, "many2")
		c.Count("sources_with_a_never_set_to_many")
	} else if t.Rel("many") != nil && r.Chance(1, 8) {
		delete(rs.ToMany, "many")
		c.Count("sources_with_a_never_set_to_many")
	}
	nm := r.Range(1, 12)
	var muts []c18mut
	kinds := []string{"set", "set", "marshal", "filter", "inplace-bytes", "inplace-ids", "inplace-nbytes", "type-edit", "set-rel", "append-set", "assign-nbytes"}
	for i := 0; i < nm; i++ {
		mu := c18mut{Side: r.Intn(2), Kind: kinds[r.Intn(len(kinds))]}
		switch mu.Kind {
		case "set":
			if len(t.Attrs) == 0 {
				mu.Kind = "marshal"
				break
			}
			a := t.Attrs[r.Intn(len(t.Attrs))]
			v := genVal(r, a.Kind, a.Null)
			if a.Kind == KBytes && !v.IsNil() && len(v.Bytes) == 0 {
				v.Bytes = []byte{5, 5}
			}
			mu.Field, mu.Val = a.Name, &v
		case "set-rel":
			if len(t.Rels) == 0 {
				mu.Kind = "marshal"
				break
			}
			rel := t.Rels[r.Intn(len(t.Rels))]
			mu.Field = rel.Name
			if rel.ToOne {
				mu.One = genID(r)
			} else {
				mu.Many = []string{"q3", "q2", "q1"}[:r.Range(0, 3)]
			}
		case "type-edit":
			// "type:" edits go through the exported Type field of a soft resource, "maps:" through the maps that
			// Attrs() / Rels() return (a wrapped resource has neither: the plain edit is applied instead)
			mu.Field = []string{"bytes", "many", "extra", "one", "type:extra", "type:bytes", "type:one", "maps:one", "maps:many", "maps:extra"}[r.Intn(10)]
		}
		muts = append(muts, mu)
	}
	if r.Chance(1, 6) {
		first := r.Intn(2)
		muts = append([]c18mut{{Side: first, Kind: "append-set"}, {Side: 1 - first, Kind: "append-set"}, {Side: first, Kind: "append-set"}}, muts...)
	}
	if c.Index < 2 {
		c.Sample(map[string]any{"type": t, "resource": rs, "mutations": muts})
	}
	m.run(c, &t, rs, muts)
}

// softOnBuiltType: a SoftResource working on a type that came from BuildType (such a type carries its own
// constructor). Fields added to the soft resource are fields of what its New() and Copy() return.
func (m c18) softOnBuiltType(c *Ctx, t *TypeSpec, rs *ResSpec) {
	var fresh, cp jsonapi.Resource
	if pi := Guard(func() {
		typ := buildType(t)
		sr := &jsonapi.SoftResource{Type: &typ}
		sr.SetID(rs.ID)
		sr.AddAttr(jsonapi.Attr{Name: "zz-added", Type: jsonapi.AttrTypeInt, Nullable: false})
		sr.Set("zz-added", 7)
		fresh, cp = sr.New(), sr.Copy()
	}); pi != nil {
		c.Violate("panic@"+pi.Frame+"/"+panicClass(pi.Val)+"/soft-on-built-type", "type %s: %s", jsonStr(t), pi)
		return
	}
	c.Count("soft_on_built_type")
	ext := *t
	ext.Wrapped = false
	ext.Attrs = append(append([]AttrSpec{}, t.Attrs...), AttrSpec{Name: "zz-added", Kind: KInt})
	for name, res := range map[string]jsonapi.Resource{"New": fresh, "Copy": cp} {
		var st string
		if pi := Guard(func() { st = checkStructure(&ext, res) }); pi != nil {
			c.Violate("panic@"+pi.Frame+"/"+panicClass(pi.Val)+"/soft-on-built-type/read", "type %s: %s", jsonStr(t), pi)
			return
		}
		if st != "" {
			c.Violate("soft-on-built-type/"+name+"-structure", "%s() of a SoftResource on a BuildType type + one added attribute: %s; type %s", name, st, jsonStr(t))
			return
		}
	}
	if v := cp.Get("zz-added"); v != 7 {
		c.Violate("soft-on-built-type/copy-value", "copy reads %v for the added attribute, source 7", v)
	}
	if v := fresh.Get("zz-added"); v != 0 {
		c.Violate("soft-on-built-type/new-not-zero", "New() reads %v for the added attribute", v)
	}
}

func (m c18) run(c *Ctx, t *TypeSpec, rs *ResSpec, muts []c18mut) {
	c.Count("evaluations")
	impl := implName(t)
	c.Count("impl/" + impl)
	if t.Wrapped {
		m.softOnBuiltType(c, t, rs)
	}
	desc := func(i int) string {
		return fmt.Sprintf("(%s) type %s resource %s mutations %s", impl, jsonStr(t), jsonStr(rs), jsonStr(muts[:i]))
	}
	var src, cp, fresh jsonapi.Resource
	if pi := Guard(func() {
		src = buildResource(t, rs)
		if t.Wrapped && len(muts)%3 == 1 {
			src = buildWrappedThroughPointer(t, rs)
			c.Count("wrapped_sources_filled_through_the_pointer")
		}
		if len(muts) > 0 && muts[0].Kind == "append-set" {
			// the source holds EMPTY slices with spare capacity (ids[:0], buf[:0]): nothing to see, room to append
			if t.Rel("many") != nil {
				src.Set("many", make([]string, 0, 4))
			}
			if a := t.Attr("bytes"); a != nil && !a.Null {
				src.Set("bytes", make([]byte, 0, 8))
			}
			c.Count("sources_with_empty_slices_with_capacity")
		}
		cp = src.(jsonapi.Copier).Copy()
		fresh = src.(jsonapi.Copier).New()
	}); pi != nil {
		c.Violate("panic@"+pi.Frame+"/"+panicClass(pi.Val)+"/copy/"+impl, "%s: %s", desc(0), pi)
		return
	}
	var s0, s1 resSnap
	if pi := Guard(func() { s0, s1 = snapshotRes(src), snapshotRes(cp); _ = snapshotRes(fresh) }); pi != nil {
		c.Violate("panic@"+pi.Frame+"/"+panicClass(pi.Val)+"/read-copy/"+impl, "%s: %s", desc(0), pi)
		return
	}
	if d := s0.diff(s1); d != "" {
		c.Violate("copy-differs/"+impl+"/"+s0.diffClass(s1), "Copy() differs from its source: %s; %s", d, desc(0))
		return
	}
	// New(): same structure, all zero
	zero := &ResSpec{Type: t.Name}
	if s := checkStructure(t, fresh); s != "" {
		c.Violate("new-structure/"+impl, "New(): %s; %s", s, desc(0))
		return
	}
	if cl, msg := compareResource(t, zero, fresh, nil, false); cl != "" {
		c.Violate("new-not-zero/"+impl+"/"+cl, "New(): %s; %s", msg, desc(0))
		return
	}
	// shared backing arrays, before any mutation could reveal them
	a0, a1, af := sliceAddrs(src), sliceAddrs(cp), sliceAddrs(fresh)
	for k, p := range a0 {
		if a1[k] == p {
			kind := "bytes"
			if t.Rel(k) != nil {
				kind = "to-many"
			} else if t.Attr(k).Null {
				kind = "nullable-bytes"
			}
			c.Violate("copy-shares-backing-array/"+impl+"/"+kind, "field %q of the copy uses the source's backing array; %s", k, desc(0))
			return
		}
		if af[k] == p {
			c.Violate("new-shares-backing-array/"+impl, "field %q of New() uses the source's backing array", k)
			return
		}
	}
	nonEmptySlices := len(a0)
	sides := []jsonapi.Resource{src, cp}
	fields, relData := t.FieldNames(), map[string][]string{t.Name: t.RelNames()}
	typeEdited := map[int]bool{}
	for i, mu := range muts {
		active, other := sides[mu.Side], sides[1-mu.Side]
		var before, freshBefore resSnap
		if pi := Guard(func() { before, freshBefore = snapshotRes(other), snapshotRes(fresh) }); pi != nil {
			c.Violate("panic@"+pi.Frame+"/"+panicClass(pi.Val)+"/snapshot/"+impl, "%s: %s", desc(i), pi)
			return
		}
		applied := true
		pi := Guard(func() {
			switch mu.Kind {
			case "set":
				active.Set(mu.Field, mu.Val.Go())
			case "set-rel":
				if t.Rel(mu.Field).ToOne {
					active.Set(mu.Field, mu.One)
				} else {
					active.Set(mu.Field, append([]string{}, mu.Many...))
				}
			case "marshal":
				_ = jsonapi.MarshalResource(active, "/", fields, relData)
			case "filter":
				f := &jsonapi.Filter{Field: "many", Op: "=", Val: []string{"m5", "a1", "z9"}}
				_ = f.IsAllowed(active)
			case "inplace-bytes":
				if b, ok := active.Get("bytes").([]byte); ok && len(b) > 0 {
					b[0] ^= 0xff
				} else {
					applied = false
				}
			case "append-set":
				// append to what Get returns and Set the result (uses spare capacity when there is some)
				tag := fmt.Sprintf("appended-%d-%d", mu.Side, i)
				if ids, ok := active.Get("many").([]string); ok {
					active.Set("many", append(ids, tag))
				} else if b, ok := active.Get("bytes").([]byte); ok {
					active.Set("bytes", append(b, byte(i+1), byte(mu.Side)))
				} else {
					applied = false
				}
				if b, ok := active.Get("bytes").([]byte); ok && t.Rel("many") != nil {
					active.Set("bytes", append(b, byte(i+1), byte(mu.Side)))
				}
			case "inplace-ids":
				if ids, ok := active.Get("many").([]string); ok && len(ids) > 0 {
					ids[0] = "mutated-" + ids[0]
				} else {
					applied = false
				}
			case "assign-nbytes":
				// the byte string behind the pointer Get returns is replaced (grown) through that pointer
				if p, ok := active.Get("nbytes").(*[]byte); ok && p != nil {
					*p = append(*p, 0x7)
				} else {
					applied = false
				}
			case "inplace-nbytes":
				if p, ok := active.Get("nbytes").(*[]byte); ok && p != nil && len(*p) > 0 {
					(*p)[0] ^= 0x55
				} else {
					applied = false
				}
			case "type-edit":
				sr, ok := active.(*jsonapi.SoftResource)
				via, field := "", mu.Field
				if i := strings.Index(field, ":"); i >= 0 {
					via, field = field[:i], field[i+1:]
				}
				if ok && via == "type" && sr.Type != nil {
					if field == "extra" {
						_ = sr.Type.AddAttr(jsonapi.Attr{Name: "extra", Type: KInt})
						_ = sr.Type.AddRel(jsonapi.Rel{FromName: "extrarel", ToType: "x"})
					} else {
						sr.Type.RemoveAttr(field)
						sr.Type.RemoveRel(field)
					}
					c.Count("type_edits_through_the_type_field")
					return
				}
				if ok && via == "maps" {
					if field == "extra" {
						if am := sr.Attrs(); am != nil {
							am["extra"] = jsonapi.Attr{Name: "extra", Type: KInt}
						}
						if rm := sr.Rels(); rm != nil {
							rm["extrarel"] = jsonapi.Rel{FromName: "extrarel", ToType: "x"}
						}
					} else {
						delete(sr.Attrs(), field)
						delete(sr.Rels(), field)
					}
					c.Count("type_edits_through_returned_maps")
					return
				}
				if !ok {
					// a wrapped resource exposes its type through GetType / Attrs / Rels
					gt := active.GetType()
					switch field {
					case "extra":
						_ = gt.AddAttr(jsonapi.Attr{Name: "extra", Type: KInt})
						_ = gt.AddRel(jsonapi.Rel{FromName: "extrarel", ToType: "x"})
					case "bytes", "one":
						gt.RemoveAttr(field)
						gt.RemoveRel(field)
					default:
						delete(active.Attrs(), field)
						delete(active.Rels(), field)
					}
					typeEdited[mu.Side] = true
					return
				}
				switch field {
				case "extra":
					sr.AddAttr(jsonapi.Attr{Name: "extra", Type: KInt})
					sr.AddRel(jsonapi.Rel{FromName: "extrarel", ToType: "x"})
				default:
					sr.RemoveField(field)
				}
			}
		})
		if pi != nil {
			// a panic while mutating is C17/C20 territory unless it comes from the copy machinery
			c.Count("mutation_panicked/" + mu.Kind)
			if c.Verbose {
				fmt.Println("  mutation panicked:", pi)
			}
			return
		}
		if applied {
			c.Count("mut/" + mu.Kind)
		}
		var after, freshAfter resSnap
		if pi := Guard(func() { after, freshAfter = snapshotRes(other), snapshotRes(fresh) }); pi != nil {
			c.Violate("panic@"+pi.Frame+"/"+panicClass(pi.Val)+"/snapshot/"+impl, "%s: %s", desc(i+1), pi)
			return
		}
		who := []string{"source", "copy"}
		if d := before.diff(after); d != "" {
			c.Violate("mutation-leaks/"+impl+"/"+mu.Kind+"/"+before.diffClass(after), "mutating the %s (%s) changed the %s: %s; %s", who[mu.Side], mu.Kind, who[1-mu.Side], d, desc(i+1))
			return
		}
		if d := freshBefore.diff(freshAfter); d != "" {
			c.Violate("mutation-leaks-into-new/"+impl+"/"+mu.Kind, "mutating the %s (%s) changed the resource returned by New(): %s; %s", who[mu.Side], mu.Kind, d, desc(i+1))
			return
		}
		if typeEdited[mu.Side] && t.Wrapped {
			c.Count("mut/type-edit-wrapped")
			break // that side's field tables no longer match its struct; reading it further is not meaningful
		}
	}
	// mutating the New() instance does not reach the source
	{
		var before, after resSnap
		if pi := Guard(func() {
			before = snapshotRes(src)
			if t.Attr("bytes") != nil {
				fresh.Set("bytes", []byte{1, 1, 1})
			}
			if t.Rel("many") != nil {
				fresh.Set("many", []string{"n"})
			}
			fresh.Set("id", "fresh-id")
			if sr, ok := fresh.(*jsonapi.SoftResource); ok {
				sr.AddAttr(jsonapi.Attr{Name: "fresh-extra", Type: KString})
				sr.AddRel(jsonapi.Rel{FromName: "fresh-extra-rel", ToType: "x"})
				sr.RemoveField("one")
			} else {
				// removing fields of the new instance's type through the tables it exposes
				gt := fresh.GetType()
				gt.RemoveAttr("bytes")
				gt.RemoveRel("one")
				delete(fresh.Attrs(), "nbytes")
				delete(fresh.Rels(), "many")
			}
			after = snapshotRes(src)
		}); pi == nil {
			if d := before.diff(after); d != "" {
				c.Violate("new-shares-state/"+impl+"/"+before.diffClass(after), "mutating New() changed the source: %s; %s", d, desc(len(muts)))
				return
			}
		}
	}
	if len(t.Attrs) == 0 || len(t.Rels) == 0 {
		c.Count("single_kind_types")
	}
	// a copy of the (possibly mutated) copy equals it and shares nothing with it
	if !(t.Wrapped && len(typeEdited) > 0) {
		var s1, s2 resSnap
		var a1, a2 map[string]uintptr
		if pi := Guard(func() {
			cp2 := cp.(jsonapi.Copier).Copy()
			s1, s2 = snapshotRes(cp), snapshotRes(cp2)
			a1, a2 = sliceAddrs(cp), sliceAddrs(cp2)
		}); pi == nil {
			c.Count("copy_of_copy")
			if d := s1.diff(s2); d != "" {
				c.Violate("copy-differs/"+impl+"/"+s1.diffClass(s2)+"/copy-of-mutated-copy", "Copy() of a resource that was itself a copy and then mutated differs from it: %s; %s", d, desc(len(muts)))
				return
			}
			for k, p := range a1 {
				if a2[k] == p {
					c.Violate("copy-shares-backing-array/"+impl+"/copy-of-copy", "field %q; %s", k, desc(len(muts)))
					return
				}
			}
		}
	}
	if nonEmptySlices >= 1 || len(t.Attrs) == 0 || len(t.Rels) == 0 {
		c.Nontrivial(impl + jsonStr(t) + jsonStr(rs) + jsonStr(muts))
	}
	m.typeCopy(c, t)
}

// typeCopy checks Type.Copy independence.
func (m c18) typeCopy(c *Ctx, t *TypeSpec) {
	soft := *t
	soft.Wrapped = false
	var problem string
	// what Fields() must list: the names in the type's own two maps
	fieldsProblem := func(who string, ty *jsonapi.Type) string {
		want := []string{}
		for n := range ty.Attrs {
			want = append(want, n)
		}
		for n := range ty.Rels {
			want = append(want, n)
		}
		sort.Strings(want)
		got := append([]string{}, ty.Fields()...)
		sort.Strings(got)
		if strings.Join(got, "\x00") != strings.Join(want, "\x00") {
			return fmt.Sprintf("fields-list-wrong: Fields() of the %s lists %q, its attributes and relationships are %q", who, got, want)
		}
		return ""
	}
	if pi := Guard(func() {
		// Fields() is called before copying and after every edit on both sides (a list remembered between calls
		// must follow the type it belongs to, not the one it was copied from)
		ft := buildType(&soft)
		_ = ft.Fields()
		fc := ft.Copy()
		for _, n := range soft.FieldNames() {
			fc.RemoveAttr(n)
			fc.RemoveRel(n)
			if problem = fieldsProblem("copy after removing "+n, &fc); problem != "" {
				return
			}
			if problem = fieldsProblem("source after the copy lost "+n, &ft); problem != "" {
				return
			}
		}
		ft2 := buildType(&soft)
		_ = ft2.Fields()
		fc2 := ft2.Copy()
		_ = fc2.Fields()
		for _, n := range soft.FieldNames() {
			ft2.RemoveAttr(n)
			ft2.RemoveRel(n)
			if problem = fieldsProblem("source after removing "+n, &ft2); problem != "" {
				return
			}
			if problem = fieldsProblem("copy after the source lost "+n, &fc2); problem != "" {
				return
			}
		}
		// a type that has already produced resources, then copied, the copy renamed and extended: the copy's New()
		// makes resources of the COPY
		{
			bt := buildType(&soft)
			_ = bt.New()
			bc := bt.Copy()
			bc.Name = "zz-copy"
			_ = bc.AddAttr(jsonapi.Attr{Name: "zz-only-in-copy", Type: KInt})
			fr := bc.New()
			if n := fr.GetType().Name; n != "zz-copy" {
				problem = fmt.Sprintf("copy-new-follows-source: New() of a renamed copy reports type %q", n)
				return
			}
			if _, ok := fr.Attrs()["zz-only-in-copy"]; !ok {
				problem = "copy-new-follows-source: New() of a copy with one more attribute lacks it"
				return
			}
			if _, ok := bt.New().Attrs()["zz-only-in-copy"]; ok {
				problem = "editing the copy changed the source: New() of the source has the copy's attribute"
				return
			}
		}
		typ := buildType(&soft)
		cp := typ.Copy()
		if typeFingerprint(&typ) != typeFingerprint(&cp) && !(len(typ.Attrs) == 0 || len(typ.Rels) == 0) {
			problem = "copy-differs: " + typeFingerprint(&typ) + " vs " + typeFingerprint(&cp)
			return
		}
		if cp.Name != typ.Name || len(cp.Attrs) != len(typ.Attrs) || len(cp.Rels) != len(typ.Rels) {
			problem = "copy-differs: " + typeFingerprint(&typ) + " vs " + typeFingerprint(&cp)
			return
		}
		before := typeFingerprint(&typ)
		_ = cp.AddAttr(jsonapi.Attr{Name: "added-to-copy", Type: KInt})
		_ = cp.AddRel(jsonapi.Rel{FromName: "rel-added-to-copy", ToType: "x"})
		cp.RemoveAttr("bytes")
		cp.RemoveRel("many")
		cp.Name = "renamed"
		if after := typeFingerprint(&typ); after != before {
			problem = "editing the copy changed the source: " + before + " -> " + after
			return
		}
		cp2 := typ.Copy()
		before = typeFingerprint(&cp2)
		_ = typ.AddAttr(jsonapi.Attr{Name: "added-to-source", Type: KInt})
		_ = typ.AddRel(jsonapi.Rel{FromName: "rel-added-to-source", ToType: "x"})
		typ.RemoveRel("one")
		if after := typeFingerprint(&cp2); after != before {
			problem = "editing the source changed the copy: " + before + " -> " + after
			return
		}
		// types whose maps are empty but not nil (the normal state of a SoftResource's type)
		for _, variant := range []jsonapi.Type{
			{Name: "only-attrs", Attrs: map[string]jsonapi.Attr{"a": {Name: "a", Type: KInt}}, Rels: map[string]jsonapi.Rel{}},
			{Name: "only-rels", Attrs: map[string]jsonapi.Attr{}, Rels: map[string]jsonapi.Rel{"r": {FromName: "r", ToType: "x"}}},
			{Name: "empty", Attrs: map[string]jsonapi.Attr{}, Rels: map[string]jsonapi.Rel{}},
			{Name: "nil-maps"},
		} {
			v := variant
			vc := v.Copy()
			b1 := typeFingerprint(&v)
			_ = vc.AddAttr(jsonapi.Attr{Name: "x1", Type: KString})
			_ = vc.AddRel(jsonapi.Rel{FromName: "x2", ToType: "x"})
			if a1 := typeFingerprint(&v); a1 != b1 {
				problem = "editing the copy changed the source: " + b1 + " -> " + a1
				return
			}
			vc2 := v.Copy()
			b2 := typeFingerprint(&vc2)
			_ = v.AddAttr(jsonapi.Attr{Name: "y1", Type: KString})
			_ = v.AddRel(jsonapi.Rel{FromName: "y2", ToType: "x"})
			if a2 := typeFingerprint(&vc2); a2 != b2 {
				problem = "editing the source changed the copy: " + b2 + " -> " + a2
				return
			}
		}
	}); pi != nil {
		c.Violate("panic@"+pi.Frame+"/typecopy", "%s: %s", jsonStr(t), pi)
		return
	}
	c.Count("typecopy")
	if problem != "" {
		c.Violate("type-copy/"+strings.SplitN(problem, ":", 2)[0], "%s", problem)
	}
}

// staticCopies: struct types written in Go source (ID promoted from an embedded struct): Copy keeps ID and values.
func (m c18) staticCopies(c *Ctx) {
	n := int64(42)
	for name, obj := range map[string]any{
		"embedded-id":      &c20Embedded{C20Base: C20Base{ID: "x1"}, Name: "n", Many: []string{"b", "a"}},
		"embedded-id-last": &c20EmbeddedLast{Name: &n, One: "o1", C20Base2: C20Base2{ID: "y2"}},
	} {
		c.Name = "static-" + name
		var src, cp, fresh jsonapi.Resource
		if pi := Guard(func() {
			w := jsonapi.Wrap(obj)
			src, cp, fresh = w, w.Copy(), w.New()
		}); pi != nil {
			c.Violate("panic@"+pi.Frame+"/"+panicClass(pi.Val)+"/copy/static-"+name, "%s", pi)
			continue
		}
		var s0, s1, sf resSnap
		if pi := Guard(func() { s0, s1, sf = snapshotRes(src), snapshotRes(cp), snapshotRes(fresh) }); pi != nil {
			c.Violate("panic@"+pi.Frame+"/"+panicClass(pi.Val)+"/read-copy/static-"+name, "%s", pi)
			continue
		}
		c.Count("static_struct_copies")
		if d := s0.diff(s1); d != "" {
			c.Violate("copy-differs/wrapped/"+s0.diffClass(s1)+"/static-"+name, "Copy() of a struct whose ID is promoted from an embedded struct differs from its source: %s", d)
		}
		if sf.ID != "" || sf.Type != s0.Type || sf.Attrs != s0.Attrs || sf.Rels != s0.Rels {
			c.Violate("new-structure/wrapped/static-"+name, "New(): id %q type %q attrs %s rels %s, source type %q attrs %s rels %s", sf.ID, sf.Type, sf.Attrs, sf.Rels, s0.Type, s0.Attrs, s0.Rels)
		}
		// independence: the copy's ID and list do not follow the source
		if pi := Guard(func() {
			src.Set("id", "changed")
			if _, ok := src.Rels()["many"]; ok {
				src.Get("many").([]string)[0] = "mutated"
			}
		}); pi == nil {
			var s2 resSnap
			if pi := Guard(func() { s2 = snapshotRes(cp) }); pi == nil {
				if d := s1.diff(s2); d != "" {
					c.Violate("mutation-leaks/wrapped/static-"+name, "changing the source changed the copy: %s", d)
				}
			}
		}
	}
}

func (m c18) Directed(c *Ctx) {
	sameNameCheck(c, "C18")
	tagOptCheck(c, "C18")
	m.staticCopies(c)
	for _, wrapped := range []bool{false, true} {
		t := TypeSpec{Name: "t", Wrapped: wrapped,
			Attrs: []AttrSpec{{Name: "bytes", Kind: KBytes}, {Name: "nbytes", Kind: KBytes, Null: true}, {Name: "s", Kind: KString}},
			Rels:  []RelSpec{{Name: "many", ToType: "x"}, {Name: "one", ToOne: true, ToType: "x"}}}
		rs := &ResSpec{Type: "t", ID: "id1", Attrs: map[string]Val{"bytes": {K: KBytes, Bytes: []byte{9, 8}}, "nbytes": {K: KBytes, Null: true, Bytes: []byte{7, 6}}, "s": {K: KString, S: "v"}},
			ToOne: map[string]string{"one": "o"}, ToMany: map[string][]string{"many": {"z9", "m5", "a1"}}}
		for _, side := range []int{0, 1} {
			c.Name = fmt.Sprintf("witness-%s-side%d", implName(&t), side)
			m.run(c, &t, rs, []c18mut{{Side: side, Kind: "inplace-bytes"}})
			m.run(c, &t, rs, []c18mut{{Side: side, Kind: "inplace-ids"}})
			m.run(c, &t, rs, []c18mut{{Side: side, Kind: "inplace-nbytes"}})
			m.run(c, &t, rs, []c18mut{{Side: side, Kind: "marshal"}})
			m.run(c, &t, rs, []c18mut{{Side: side, Kind: "filter"}})
			m.run(c, &t, rs, []c18mut{{Side: side, Kind: "type-edit", Field: "bytes"}})
		}
	}
}
