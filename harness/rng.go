package main

import "hash/fnv"

// RNG is a small deterministic generator (splitmix64). Every case of every
// check derives its generator from (VERIF_SEED, property, batch, index) only,
// so the list of cases of a tier is a pure function of the seed.
type RNG struct{ s uint64 }

func mix(z uint64) uint64 {
	z += 0x9e3779b97f4a7c15
	z = (z ^ (z >> 30)) * 0xbf58476d1ce4e5b9
	z = (z ^ (z >> 27)) * 0x94d049bb133111eb
	return z ^ (z >> 31)
}

func NewRNG(parts ...uint64) *RNG {
	s := uint64(0x1234567887654321)
	for _, p := range parts {
		s = mix(s ^ mix(p))
	}
	return &RNG{s: s}
}

func strSeed(s string) uint64 {
	h := fnv.New64a()
	h.Write([]byte(s))
	return h.Sum64()
}

func (r *RNG) Uint64() uint64 {
	r.s += 0x9e3779b97f4a7c15
	z := r.s
	z = (z ^ (z >> 30)) * 0xbf58476d1ce4e5b9
	z = (z ^ (z >> 27)) * 0x94d049bb133111eb
	return z ^ (z >> 31)
}

// Intn returns a value in [0,n). n <= 0 gives 0.
func (r *RNG) Intn(n int) int {
	if n <= 1 {
		return 0
	}
	return int(r.Uint64() % uint64(n))
}

// Range returns a value in [lo,hi].
func (r *RNG) Range(lo, hi int) int {
	if hi <= lo {
		return lo
	}
	return lo + r.Intn(hi-lo+1)
}

func (r *RNG) Bool() bool { return r.Uint64()&1 == 1 }

// Chance is true with probability num/den.
func (r *RNG) Chance(num, den int) bool { return r.Intn(den) < num }

func (r *RNG) Pick(ss []string) string {
	if len(ss) == 0 {
		return ""
	}
	return ss[r.Intn(len(ss))]
}

func (r *RNG) Perm(n int) []int {
	p := make([]int, n)
	for i := range p {
		p[i] = i
	}
	for i := n - 1; i > 0; i-- {
		j := r.Intn(i + 1)
		p[i], p[j] = p[j], p[i]
	}
	return p
}

func shuffleStrings(r *RNG, in []string) []string {
	out := make([]string, len(in))
	for i, j := range r.Perm(len(in)) {
		out[i] = in[j]
	}
	return out
}

// subset returns each element with probability 1/2 (order kept).
func subsetStrings(r *RNG, in []string) []string {
	out := []string{}
	for _, s := range in {
		if r.Bool() {
			out = append(out, s)
		}
	}
	return out
}
