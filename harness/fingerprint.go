package main

import (
	"fmt"
	"reflect"
	"sort"
	"strings"

	"github.com/mfcochauxlaberge/jsonapi"
)

func typeFingerprint(t *jsonapi.Type) string {
	var sb strings.Builder
	fmt.Fprintf(&sb, "type %q attrs(nil=%v)[", t.Name, t.Attrs == nil)
	for _, k := range sortedKeys(t.Attrs) {
		a := t.Attrs[k]
		fmt.Fprintf(&sb, "%q:{%q %d %v}", k, a.Name, a.Type, a.Nullable)
	}
	fmt.Fprintf(&sb, "] rels(nil=%v)[", t.Rels == nil)
	for _, k := range sortedKeys(t.Rels) {
		r := t.Rels[k]
		fmt.Fprintf(&sb, "%q:{%q.%q one=%v -> %q.%q one=%v}", k, r.FromType, r.FromName, r.ToOne, r.ToType, r.ToName, r.FromOne)
	}
	fmt.Fprintf(&sb, "] newfunc=%v;", t.NewFunc != nil)
	return sb.String()
}

// schemaFingerprint is a deep textual snapshot of a schema: exported state and,
// by reflection, the unexported relationship cache.
func schemaFingerprint(s *jsonapi.Schema) string {
	var sb strings.Builder
	fmt.Fprintf(&sb, "types(nil=%v,len=%d,cap=%d)", s.Types == nil, len(s.Types), cap(s.Types))
	for i := range s.Types {
		sb.WriteString(typeFingerprint(&s.Types[i]))
	}
	rv := reflect.ValueOf(s).Elem()
	for i := 0; i < rv.NumField(); i++ {
		f := rv.Type().Field(i)
		if f.Name == "Types" {
			continue
		}
		sb.WriteString(" " + f.Name + "=" + reflectDump(rv.Field(i), 0))
	}
	return sb.String()
}

// reflectDump prints any value (including unexported ones) deterministically.
func reflectDump(v reflect.Value, depth int) string {
	if depth > 6 {
		return "…"
	}
	switch v.Kind() {
	case reflect.Map:
		if v.IsNil() {
			return "nil-map"
		}
		items := []string{}
		it := v.MapRange()
		for it.Next() {
			items = append(items, reflectDump(it.Key(), depth+1)+":"+reflectDump(it.Value(), depth+1))
		}
		sort.Strings(items)
		return "map[" + strings.Join(items, ",") + "]"
	case reflect.Slice:
		if v.IsNil() {
			return "nil-slice"
		}
		fallthrough
	case reflect.Array:
		items := []string{}
		for i := 0; i < v.Len(); i++ {
			items = append(items, reflectDump(v.Index(i), depth+1))
		}
		return "[" + strings.Join(items, ",") + "]"
	case reflect.Struct:
		items := []string{}
		for i := 0; i < v.NumField(); i++ {
			items = append(items, v.Type().Field(i).Name+"="+reflectDump(v.Field(i), depth+1))
		}
		return "{" + strings.Join(items, ",") + "}"
	case reflect.Ptr, reflect.Interface:
		if v.IsNil() {
			return "nil"
		}
		return "&" + reflectDump(v.Elem(), depth+1)
	case reflect.String:
		return fmt.Sprintf("%q", v.String())
	case reflect.Bool:
		return fmt.Sprint(v.Bool())
	case reflect.Int, reflect.Int8, reflect.Int16, reflect.Int32, reflect.Int64:
		return fmt.Sprint(v.Int())
	case reflect.Uint, reflect.Uint8, reflect.Uint16, reflect.Uint32, reflect.Uint64:
		return fmt.Sprint(v.Uint())
	case reflect.Func:
		return fmt.Sprintf("func(nil=%v)", v.IsNil())
	}
	return v.Kind().String()
}
