package main

import (
	"fmt"
	"reflect"
	"sort"
	"strings"

	"github.com/mfcochauxlaberge/jsonapi"
)

// C09 — Range returns exactly the selected, filtered, sorted page.
type c09 struct{}

func init() { register(c09{}) }

func (c09) ID() string { return "C09" }
func (c09) Size(tier string) Size {
	if tier == "thorough" {
		return Size{Batches: 32, Cases: 9000}
	}
	return Size{Batches: 16, Cases: 600}
}
func (c09) Rule() string {
	return "case = collection of 0..n resources (n <= 12 quick, <= 60 thorough) with unique IDs over random kinds, held as SoftCollection, WrapperCollection or Resources of soft / struct-backed resources; ID list = random subset (+ IDs not present) or empty; filter = nil or a well-typed tree from C10's generator; rules = list over attributes and id with and without '-', attribute values drawn from <= 3 distinct values so ties are common; every page 0..ceil(m/size)+1 for a random size (including 0) plus huge page numbers, and 3 shuffles of the input. Oracle = my own select / filter / stable-sort / slice; pages compared by rule-key tuples position by position (the library's sort need not be stable), exact ID sequence when the rules contain id, pages partition the matching set, result non-nil, input members and order unchanged. Also: degenerate filters (the zero filter 'filter={}' decodes to, an operator without a field, case variants of and/or: each allows nothing), and directed collections of 1100-4200 resources with page sizes 1023, 1024, 1025, n-1, n, n+1 and 5000 (no silent cap). Non-trivial = >= 2 matching resources and a non-empty page; distinct = hash of the scenario."
}
func (c09) Assumptions() []string {
	return []string{"'-' reverses the whole order of that rule, nil included (nil first ascending, last descending); false < true; rules after an id rule cannot matter",
		"ID lists have no duplicates; rules name attributes of the type or id; number*size < 2^63"}
}
func (c09) Floors(tier string, c map[string]int64) []string {
	var out []string
	for _, k := range []string{"holder/SoftCollection", "holder/WrapperCollection", "holder/Resources-soft", "holder/Resources-wrapped", "holder/Range-result", "with_filter", "with_ids", "rules_with_id", "rules_without_id", "size_zero", "huge_page_size", "ties_seen", "nil_keys_seen", "pages_nonempty"} {
		if c[k] == 0 {
			out = append(out, "never observed: "+k)
		}
	}
	for _, k := range allKinds {
		for _, null := range []bool{false, true} {
			if c["sorted_by/"+kindName(k, null)] == 0 {
				out = append(out, "no scenario sorted by kind "+kindName(k, null))
			}
		}
	}
	return out
}

type c09scn struct {
	Type   TypeSpec   `json:"type"`
	Holder string     `json:"holder"`
	Res    []*ResSpec `json:"resources"`
	IDs    []string   `json:"ids"`
	Filter *FSpec     `json:"filter,omitempty"`
	Rules  []string   `json:"rules"`
	Size   uint       `json:"size"`
}

func (m c09) buildCollection(s *c09scn, order []int) (jsonapi.Collection, *PanicInfo) {
	var col jsonapi.Collection
	pi := Guard(func() {
		t := s.Type
		switch s.Holder {
		case "SoftCollection":
			sc := &jsonapi.SoftCollection{}
			st := t
			st.Wrapped = false
			typ := buildType(&st)
			sc.SetType(&typ)
			// built through a history that includes removals (a decoy added first and one in the middle, both
			// removed again): positions shift
			sc.Add(buildResource(&t, &ResSpec{Type: t.Name, ID: "zz-decoy-first"}))
			for n, i := range order {
				if n == len(order)/2 {
					sc.Add(buildResource(&t, &ResSpec{Type: t.Name, ID: "zz-decoy-mid"}))
				}
				sc.Add(buildResource(&t, s.Res[i]))
			}
			if len(order)%2 == 0 {
				_ = sc.Resource("zz-decoy-first", nil) // a lookup before the removals
			}
			sc.Remove("zz-decoy-first")
			sc.Remove("zz-decoy-mid")
			other := &jsonapi.SoftCollection{}
			typ2 := buildType(&st)
			other.SetType(&typ2)
			other.Add(buildResource(&t, &ResSpec{Type: t.Name, ID: "zz-other"}))
			col = sc
		case "WrapperCollection":
			wt := t
			wt.Wrapped = true
			wc := jsonapi.WrapCollection(newResource(&wt))
			for _, i := range order {
				wc.Add(buildResource(&wt, s.Res[i]))
			}
			// another collection of the same type is alive and filled at the same time (collections do not share storage)
			other := jsonapi.WrapCollection(newResource(&wt))
			for k := 0; k < 3; k++ {
				other.Add(buildResource(&wt, &ResSpec{Type: wt.Name, ID: fmt.Sprint("zz-other-", k)}))
			}
			if len(order) > 0 {
				wc2 := jsonapi.WrapCollection(newResource(&wt))
				wc2.Add(buildResource(&wt, &ResSpec{Type: wt.Name, ID: "zz-other-late"}))
			}
			col = wc
		case "Range-result":
			// the collection Range returns (everything, unsorted rules) used as the input of the next Range
			rt := t
			rt.Wrapped = len(order)%2 == 1
			rs := &jsonapi.Resources{}
			for _, i := range order {
				rs.Add(buildResource(&rt, s.Res[i]))
			}
			col = jsonapi.Range(rs, nil, nil, []string{}, ^uint(0)>>1, 0)
		default:
			rt := t
			rt.Wrapped = s.Holder == "Resources-wrapped"
			rs := &jsonapi.Resources{}
			for _, i := range order {
				rs.Add(buildResource(&rt, s.Res[i]))
			}
			col = rs
		}
	})
	return col, pi
}

// keyTuple is the vector of sort keys of a resource under the rules (cut after the first id rule).
func c09keys(t *TypeSpec, rs *ResSpec, rules []string) []string {
	var out []string
	for _, r := range rules {
		name := strings.TrimPrefix(r, "-")
		if name == "id" {
			out = append(out, "id:"+rs.ID)
			break
		}
		a := t.Attr(name)
		v := rs.wantAttr(*a)
		if v.IsNil() {
			out = append(out, "nil")
		} else if a.Kind == KTime {
			out = append(out, fmt.Sprintf("t:%d.%09d", v.Sec, v.Nsec))
		} else {
			v.UNil = false
			out = append(out, v.String())
		}
	}
	return out
}

// c09less is my comparator.
func c09less(t *TypeSpec, a, b *ResSpec, rules []string) bool {
	for _, r := range rules {
		inv := strings.HasPrefix(r, "-")
		name := strings.TrimPrefix(r, "-")
		if name == "id" {
			if a.ID == b.ID {
				return false
			}
			return (a.ID < b.ID) != inv
		}
		at := t.Attr(name)
		va, vb := a.wantAttr(*at), b.wantAttr(*at)
		var c int
		switch {
		case va.IsNil() && vb.IsNil():
			c = 0
		case va.IsNil():
			c = -1
		case vb.IsNil():
			c = 1
		default:
			c = cmpVal(va, vb)
		}
		if c == 0 {
			continue
		}
		return (c < 0) != inv
	}
	return false
}

func (m c09) Case(c *Ctx, r *RNG) {
	maxN := c.Pick(12, 60)
	s := &c09scn{}
	s.Type = TypeSpec{Name: r.Pick(typeNamePool)}
	names := genDistinctNames(r, fieldNamePool, len(fieldNamePool))
	na := r.Range(1, 5)
	for i := 0; i < na; i++ {
		s.Type.Attrs = append(s.Type.Attrs, AttrSpec{Name: names[i], Kind: allKinds[r.Intn(len(allKinds))], Null: r.Bool()})
	}
	if r.Chance(1, 10) {
		// an attribute whose own name has surrounding white space or a leading '-': a rule names it verbatim
		s.Type.Attrs[0].Name = r.Pick([]string{"rank ", " label", "\u00a0note", " ", "a b "})
		c.Count("padded_attribute_names")
	}
	s.Type.Rels = []RelSpec{{Name: "one", ToOne: true, ToType: "x"}, {Name: "many", ToType: "x"}}
	s.Holder = []string{"SoftCollection", "WrapperCollection", "Resources-soft", "Resources-wrapped", "Range-result"}[r.Intn(5)]
	n := r.Range(0, maxN)
	if r.Chance(1, 3) {
		n = r.Range(0, 5)
	}
	// <= 3 distinct values per attribute
	pools := map[string][]Val{}
	for _, a := range s.Type.Attrs {
		k := r.Range(1, 3)
		for i := 0; i < k; i++ {
			v := genVal(r, a.Kind, a.Null)
			pools[a.Name] = append(pools[a.Name], v)
		}
	}
	idPoolLocal := dedup(append(shuffleStrings(r, safeIDPool), shuffleStrings(r, idPool)...))
	if r.Chance(1, 6) {
		idPoolLocal = append([]string{""}, idPoolLocal...) // one resource whose ID is the empty string
	}
	for i := 0; i < n && i < len(idPoolLocal); i++ {
		rs := &ResSpec{Type: s.Type.Name, ID: idPoolLocal[i], Attrs: map[string]Val{}, ToOne: map[string]string{"one": r.Pick([]string{"", "p", "q"})}, ToMany: map[string][]string{"many": subsetStrings(r, []string{"m1", "m2", "m3"})}}
		for _, a := range s.Type.Attrs {
			p := pools[a.Name]
			rs.Attrs[a.Name] = p[r.Intn(len(p))]
		}
		s.Res = append(s.Res, rs)
	}
	// ids
	if r.Bool() {
		for _, rs := range s.Res {
			if r.Bool() {
				s.IDs = append(s.IDs, rs.ID)
			}
		}
		if r.Bool() {
			s.IDs = append(s.IDs, "not-there")
		}
		if r.Chance(1, 8) {
			s.IDs = append(s.IDs, "") // the empty string is an ID like any other (listed: selects the resource whose ID is "")
		}
		s.IDs = shuffleStrings(r, dedup(s.IDs)) // the list is a set of IDs: what a repeated ID selects is not stated
	} else if r.Chance(1, 12) {
		s.IDs = []string{""} // a non-empty list: selects at most the resource whose ID is ""
	}
	// filter
	if r.Bool() {
		var probe *ResSpec
		if len(s.Res) > 0 {
			probe = s.Res[r.Intn(len(s.Res))]
		}
		f := genTree(r, &s.Type, probe, r.Range(0, 3))
		if r.Chance(1, 15) {
			// the zero filter (what "filter={}" decodes to) and friends: a present filter that names no field
			// allows nothing - it is not the same as no filter
			f = []FSpec{{}, {Op: "="}, {Op: "AND", KidsVal: true}, {Op: "or"}}[r.Intn(4)]
		}
		s.Filter = &f
	}
	// rules
	nr := r.Range(0, 4)
	for i := 0; i < nr; i++ {
		name := "id"
		if r.Chance(4, 5) {
			name = s.Type.Attrs[r.Intn(len(s.Type.Attrs))].Name
		}
		if r.Bool() {
			name = "-" + name
		}
		s.Rules = append(s.Rules, name)
	}
	s.Size = uint(r.Range(0, n+2))
	if r.Chance(1, 12) {
		// huge page sizes: with number 0 the product stays below 2^63
		s.Size = []uint{1 << 31, 1 << 40, 1 << 62, 1<<63 - 1, 1 << 63, ^uint(0)}[r.Intn(6)]
	}
	if c.Index < 2 {
		c.Sample(s)
	}
	m.run(c, s, r)
}

func (m c09) run(c *Ctx, s *c09scn, r *RNG) {
	c.Count("holder/" + s.Holder)
	t := &s.Type
	desc := func() string { return clip(jsonStr(s), 3000) }
	// reference
	var matching []*ResSpec
	for _, rs := range s.Res {
		if len(s.IDs) > 0 && !contains(s.IDs, rs.ID) {
			continue
		}
		if s.Filter != nil && !evalFilter(s.Filter, t, rs) {
			continue
		}
		matching = append(matching, rs)
	}
	byID := map[string]*ResSpec{}
	for _, rs := range s.Res {
		byID[rs.ID] = rs
	}
	ref := append([]*ResSpec{}, matching...)
	rules := s.Rules
	sort.SliceStable(ref, func(i, j int) bool { return c09less(t, ref[i], ref[j], rules) })
	hasID := false
	for _, ru := range rules {
		if strings.TrimPrefix(ru, "-") == "id" {
			hasID = true
			break
		}
		a := t.Attr(strings.TrimPrefix(ru, "-"))
		c.Count("sorted_by/" + kindName(a.Kind, a.Null))
	}
	if hasID {
		c.Count("rules_with_id")
	} else {
		c.Count("rules_without_id")
	}
	if s.Filter != nil {
		c.Count("with_filter")
	}
	if len(s.IDs) > 0 {
		c.Count("with_ids")
	}
	if s.Size == 0 {
		c.Count("size_zero")
	}
	for i := 1; i < len(ref); i++ {
		ka, kb := c09keys(t, ref[i-1], rules), c09keys(t, ref[i], rules)
		if strings.Join(ka, "\x00") == strings.Join(kb, "\x00") {
			c.Count("ties_seen")
		}
		for _, k := range ka {
			if k == "nil" {
				c.Count("nil_keys_seen")
			}
		}
	}
	m0 := len(ref)
	npages := 1
	if s.Size > 0 && s.Size < 1<<31 {
		npages = (m0+int(s.Size)-1)/int(s.Size) + 1
	}
	nums := []uint{}
	for p := 0; p <= npages; p++ {
		nums = append(nums, uint(p))
	}
	if s.Size >= 1<<31 {
		nums = []uint{0} // number*size must stay below 2^63
		if s.Size < 1<<62 {
			nums = append(nums, 1)
		}
		c.Count("huge_page_size")
	} else if s.Size > 0 {
		nums = append(nums, uint((uint64(1)<<62)/uint64(s.Size)), 1000003)
	} else {
		nums = append(nums, 1<<40)
	}
	var firstSeq map[uint][]string
	orderViolated := false
	shuffles := 3
	nontrivial := false
	for sh := 0; sh <= shuffles; sh++ {
		order := make([]int, len(s.Res))
		for i := range order {
			order[i] = i
		}
		if sh > 0 {
			order = r.Perm(len(s.Res))
		}
		col, pi := m.buildCollection(s, order)
		if pi != nil {
			c.Violate("panic@"+pi.Frame+"/build-collection/"+s.Holder, "%s: %s", desc(), pi)
			return
		}
		// input identity before
		before := make([]jsonapi.Resource, col.Len())
		for i := range before {
			before[i] = col.At(i)
		}
		seen := map[string]bool{}
		seqs := map[uint][]string{}
		// like a caller paginating in a loop: the same rule list, ID list and filter value for every page
		sharedRules := append([]string{}, rules...)
		sharedIDs := append([]string{}, s.IDs...)
		var sharedFilter *jsonapi.Filter
		if s.Filter != nil {
			sharedFilter = s.Filter.build()
		}
		for _, num := range nums {
			c.Count("evaluations")
			var page jsonapi.Collection
			if pi := Guard(func() {
				page = jsonapi.Range(col, sharedIDs, sharedFilter, sharedRules, s.Size, num)
			}); pi != nil {
				cls := "plain"
				for _, ru := range rules {
					if a := t.Attr(strings.TrimPrefix(ru, "-")); a != nil && a.Null {
						cls = "nullable-rule"
					}
				}
				c.Violate("panic@"+pi.Frame+"/"+panicClass(pi.Val)+"/"+s.Holder+"/"+cls, "Range(page %d) panicked: %s; scenario %s", num, pi, desc())
				return
			}
			if page == nil || (reflect.ValueOf(page).Kind() == reflect.Ptr && reflect.ValueOf(page).IsNil()) {
				c.Violate("nil-result", "Range returned nil; page %d of %s", num, desc())
				return
			}
			lo := uint64(num) * uint64(s.Size)
			var want []*ResSpec
			if lo < uint64(m0) {
				hi := lo + uint64(s.Size)
				if hi > uint64(m0) || hi < lo {
					hi = uint64(m0)
				}
				want = ref[lo:hi]
			}
			var ids []string
			if pi := Guard(func() {
				for i := 0; i < page.Len(); i++ {
					id, _ := page.At(i).Get("id").(string)
					ids = append(ids, id)
				}
			}); pi != nil {
				c.Violate("panic@"+pi.Frame+"/read-page", "%s: %s", desc(), pi)
				return
			}
			seqs[num] = ids
			if len(ids) != len(want) {
				c.Violate("page-length", "page %d (size %d) has %d resources %v, want %d (%d matching); scenario %s", num, s.Size, len(ids), ids, len(want), m0, desc())
				return
			}
			if len(want) > 0 {
				c.Count("pages_nonempty")
				if m0 >= 2 {
					nontrivial = true
				}
			}
			for i, id := range ids {
				rs, ok := byID[id]
				if !ok {
					c.Violate("page-foreign-resource", "page %d holds id %q which is not in the collection; %s", num, id, desc())
					return
				}
				isMatch := false
				for _, mm := range matching {
					if mm.ID == id {
						isMatch = true
					}
				}
				if !isMatch {
					c.Violate("page-nonmatching-resource", "page %d holds id %q which the ID list / filter exclude; %s", num, id, desc())
					return
				}
				if seen[id] {
					c.Violate("pages-overlap", "id %q appears on two pages (or twice); %s", id, desc())
					return
				}
				seen[id] = true
				kg, kw := c09keys(t, rs, rules), c09keys(t, want[i], rules)
				if strings.Join(kg, "\x00") != strings.Join(kw, "\x00") {
					kind := "id"
					for ri, ru := range rules {
						if ri < len(kg) && ri < len(kw) && kg[ri] != kw[ri] {
							if a := t.Attr(strings.TrimPrefix(ru, "-")); a != nil {
								kind = kindName(a.Kind, a.Null)
							}
							break
						}
					}
					holder := "soft"
					if s.Holder == "WrapperCollection" || s.Holder == "Resources-wrapped" {
						holder = "wrapped"
					}
					// an ordering violation does not end the scenario: membership, partition, non-nil result and
					// input identity are still judged (the order clause is judged once per scenario)
					if !orderViolated {
						c.Violate("order/"+kind+"/"+holder, "page %d position %d holds %q with keys %v, the sorted matching set has keys %v there (ids %v, want %v); %s", num, i, id, kg, kw, ids, specIDs(want), desc())
					}
					orderViolated = true
					continue
				}
				if hasID && id != want[i].ID && !orderViolated {
					c.Violate("order/id-sequence", "page %d: ids %v, want %v; %s", num, ids, specIDs(want), desc())
					orderViolated = true
				}
			}
		}
		if s.Size > 0 && s.Size < 1<<31 && len(seen) != m0 {
			c.Violate("pages-do-not-cover", "pages 0..%d hold %d distinct resources, %d match; %s", npages, len(seen), m0, desc())
			return
		}
		// input unchanged
		if pi := Guard(func() {
			if col.Len() != len(before) {
				c.Violate("input-changed/len", "input collection had %d members, now %d; %s", len(before), col.Len(), desc())
				return
			}
			for i := range before {
				if col.At(i) != before[i] {
					c.Violate("input-changed/order", "input collection member %d changed; %s", i, desc())
					return
				}
			}
		}); pi != nil {
			c.Violate("panic@"+pi.Frame+"/read-input", "%s", pi)
			return
		}
		if hasID && !orderViolated {
			if firstSeq == nil {
				firstSeq = seqs
			} else {
				for _, num := range nums {
					if !sameSeq(firstSeq[num], seqs[num]) {
						c.Violate("depends-on-initial-order", "page %d is %v for one initial order and %v for another although the rules contain id; %s", num, firstSeq[num], seqs[num], desc())
						return
					}
				}
			}
		}
	}
	if nontrivial {
		c.Nontrivial(jsonStr(s))
	}
}

func specIDs(rs []*ResSpec) []string {
	out := []string{}
	for _, r := range rs {
		out = append(out, r.ID)
	}
	return out
}

func (m c09) Directed(c *Ctx) {
	r := NewRNG(9)
	// one scenario per kind: sort by that kind, ascending and descending, with nils and ties
	for _, holder := range []string{"Resources-soft", "Resources-wrapped", "SoftCollection", "WrapperCollection"} {
		for _, k := range allKinds {
			for _, null := range []bool{false, true} {
				c.Name = fmt.Sprintf("sort-by-%s-%s", kindName(k, null), holder)
				pool := poolValues(k, null)
				s := &c09scn{Type: TypeSpec{Name: "t", Attrs: []AttrSpec{{Name: "v", Kind: k, Null: null}}, Rels: []RelSpec{{Name: "one", ToOne: true, ToType: "x"}, {Name: "many", ToType: "x"}}}, Holder: holder, Size: 4}
				for i := 0; i < 9; i++ {
					v := pool[(i*7)%len(pool)]
					if null && i%4 == 3 {
						v = Val{K: k, Null: true, Nil: true}
					}
					s.Res = append(s.Res, &ResSpec{Type: "t", ID: safeIDPool[i], Attrs: map[string]Val{"v": v}, ToOne: map[string]string{"one": ""}, ToMany: map[string][]string{"many": {}}})
				}
				for _, rules := range [][]string{{"v"}, {"-v"}, {"v", "id"}, {"-v", "-id"}} {
					s.Rules = rules
					m.run(c, s, r)
				}
			}
		}
	}
	// large collections and page sizes around and beyond 1024 / 4096: no silent cap on size or on the number of matches
	for hi, holder := range []string{"Resources-soft", "SoftCollection", "WrapperCollection", "Range-result"} {
		n := []int{1300, 1100, 2100, 4200}[hi]
		if c.Tier != "thorough" && hi >= 2 {
			n = 1200
		}
		s := &c09scn{Type: TypeSpec{Name: "t", Attrs: []AttrSpec{{Name: "v", Kind: KInt}}, Rels: []RelSpec{{Name: "one", ToOne: true, ToType: "x"}, {Name: "many", ToType: "x"}}}, Holder: holder}
		for i := 0; i < n; i++ {
			s.Res = append(s.Res, &ResSpec{Type: "t", ID: fmt.Sprintf("r%05d", (i*7919)%n), Attrs: map[string]Val{"v": {K: KInt, I: fmt.Sprint((i * 31) % 97)}}, ToOne: map[string]string{"one": ""}, ToMany: map[string][]string{"many": {}}})
		}
		for _, size := range []uint{1023, 1024, 1025, uint(n - 1), uint(n), uint(n + 1), 5000} {
			c.Name = fmt.Sprintf("large-%s-%d-size-%d", holder, n, size)
			s.Size = size
			s.Rules = [][]string{{"v"}, {"-v", "id"}, {}}[int(size)%3]
			m.run(c, s, r)
			c.Count("large_collections")
		}
	}
}
