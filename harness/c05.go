package main

import (
	"bytes"
	"errors"
	"fmt"
	"net/http"
	"net/url"
	"reflect"
	"strings"

	"github.com/mfcochauxlaberge/jsonapi"
)

// C05 — unmarshaling arbitrary bytes never panics nor yields off-schema data.
type c05 struct{}

func init() { register(c05{}) }

func (c05) ID() string { return "C05" }
func (c05) Size(tier string) Size {
	if tier == "thorough" {
		return Size{Batches: 32, Cases: 220}
	}
	return Size{Batches: 16, Cases: 140}
}
func (c05) Rule() string {
	return "case = random schema (soft and struct-backed types over all kinds) + a valid document / resource / identifier payload marshaled by the library itself, then attacked: raw random bytes, bit flips, truncation at EVERY byte offset, nesting to depth 20000, structure-aware mutation (each value position replaced by a number / string / bool / null / array / object - a sample of positions in quick, every position in thorough), unknown and missing types, unknown fields, duplicate keys, [null] elements; every input goes through all seven entry points (UnmarshalDocument, UnmarshalResource, UnmarshalPartialResource, UnmarshalCollection, UnmarshalIdentifier, UnmarshalIdentifiers, NewRequest with GET/POST/PATCH/DELETE). Oracle: no panic; exactly one of result / error; every resource reachable from a result has a type of the schema, every attribute a value of exactly the declared Go type (nil allowed for nullable), to-one a string, to-many a []string. Non-trivial = input that is valid JSON; distinct = input hash."
}
func (c05) Assumptions() []string {
	return []string{"a zero Identifier, an empty Identifiers and a nil interface count as 'no result'", "process-fatal outcomes (stack exhaustion) are caught by the child-process model and reported with the case index"}
}
func (c05) Floors(tier string, c map[string]int64) []string {
	var out []string
	for _, e := range []string{"UnmarshalDocument", "UnmarshalResource", "UnmarshalPartialResource", "UnmarshalCollection", "UnmarshalIdentifier", "UnmarshalIdentifiers", "NewRequest"} {
		if c["accepted/"+e] == 0 || c["rejected/"+e] == 0 {
			out = append(out, fmt.Sprintf("%s: accepted=%d rejected=%d (need both)", e, c["accepted/"+e], c["rejected/"+e]))
		}
	}
	for _, k := range []string{"input/raw", "input/truncated", "input/bitflip", "input/deep", "input/kind-mutation", "input/unknown-type", "input/duplicate-key", "input/null-element", "resources_checked"} {
		if c[k] == 0 {
			out = append(out, "never observed: "+k)
		}
	}
	return out
}

// checkResult walks everything reachable from a result.
func (m c05) checkResource(c *Ctx, s *SchemaSpec, res jsonapi.Resource, entry, class string, in []byte, partial bool) bool {
	if res == nil || (reflect.ValueOf(res).Kind() == reflect.Ptr && reflect.ValueOf(res).IsNil()) {
		c.Violate("nil-resource-in-result/"+entry, "input %q", clip(string(in), 400))
		return false
	}
	ok := true
	if pi := Guard(func() {
		name := res.GetType().Name
		t := s.Type(name)
		if t == nil {
			known := "unknown-type"
			if name == "" {
				known = "empty-type"
			}
			c.Violate("off-schema-type/"+entry+"/"+known, "result holds a resource of type %q which the schema lacks; input (%s) %q", name, class, clip(string(in), 600))
			ok = false
			return
		}
		if _, isStr := res.Get("id").(string); !isStr {
			c.Violate("id-not-string/"+entry, "input %q", clip(string(in), 400))
			ok = false
			return
		}
		attrs := res.Attrs()
		for _, a := range t.Attrs {
			if partial {
				if _, present := attrs[a.Name]; !present {
					continue
				}
			}
			got := res.Get(a.Name)
			if got == nil {
				if !a.Null {
					c.Violate("ill-typed-attribute/"+entry+"/"+kindNames[a.Kind], "attribute %q (%s) reads nil; input %q", a.Name, kindName(a.Kind, a.Null), clip(string(in), 600))
					ok = false
					return
				}
				continue
			}
			if reflect.TypeOf(got) != goType(a.Kind, a.Null) {
				c.Violate("ill-typed-attribute/"+entry+"/"+kindNames[a.Kind], "attribute %q (%s) holds a %T; input %q", a.Name, kindName(a.Kind, a.Null), got, clip(string(in), 600))
				ok = false
				return
			}
		}
		rels := res.Rels()
		for _, rl := range t.Rels {
			if partial {
				if _, present := rels[rl.Name]; !present {
					continue
				}
			}
			got := res.Get(rl.Name)
			_, isStr := got.(string)
			_, isList := got.([]string)
			if (rl.ToOne && !isStr) || (!rl.ToOne && !isList) {
				c.Violate("ill-typed-relationship/"+entry, "relationship %q (toOne=%v) holds a %T; input %q", rl.Name, rl.ToOne, got, clip(string(in), 600))
				ok = false
				return
			}
		}
		if partial {
			for n := range attrs {
				if t.Attr(n) == nil {
					c.Violate("off-schema-field/"+entry, "partial resource has attribute %q which type %q lacks", n, name)
					ok = false
				}
			}
			for n := range rels {
				if t.Rel(n) == nil {
					c.Violate("off-schema-field/"+entry, "partial resource has relationship %q which type %q lacks", n, name)
					ok = false
				}
			}
		}
	}); pi != nil {
		c.Violate("panic@"+pi.Frame+"/"+panicClass(pi.Val)+"/reading-result/"+entry, "%s; input %q", pi, clip(string(in), 600))
		return false
	}
	c.Count("resources_checked")
	return ok
}

func (m c05) checkDoc(c *Ctx, s *SchemaSpec, doc *jsonapi.Document, entry, class string, in []byte) {
	if doc == nil {
		c.Violate("nil-document/"+entry, "neither document nor error; input %q", clip(string(in), 400))
		return
	}
	switch d := doc.Data.(type) {
	case nil:
	case jsonapi.Resource:
		if !m.checkResource(c, s, d, entry, class, in, false) {
			return
		}
	case jsonapi.Collection:
		if pi := Guard(func() {
			for i := 0; i < d.Len(); i++ {
				if !m.checkResource(c, s, d.At(i), entry, class, in, false) {
					return
				}
			}
		}); pi != nil {
			c.Violate("panic@"+pi.Frame+"/reading-collection/"+entry, "%s", pi)
		}
	case jsonapi.Identifier, jsonapi.Identifiers:
	default:
		c.Violate("unknown-data-kind/"+entry, "Data is a %T", doc.Data)
	}
	for _, r := range doc.Included {
		if !m.checkResource(c, s, r, entry, class, in, false) {
			return
		}
	}
}

func (m c05) attack(c *Ctx, s *SchemaSpec, schema *jsonapi.Schema, in []byte, class string) {
	c.Count("input/" + class)
	isJSON := false
	if _, err := parseJV(in); err == nil {
		isJSON = true
	}
	type entryFn struct {
		name string
		run  func() (accepted bool)
	}
	report := func(entry string, pi *PanicInfo) {
		inputClass := class
		c.Violate("panic@"+pi.Frame+"/"+panicClass(pi.Val)+"/"+entry, "%s on (%s) input %q", pi, inputClass, clip(string(in), 700))
	}
	both := func(entry string, hasRes bool, err error) bool {
		if hasRes && err != nil {
			c.Violate("result-and-error/"+entry, "both a result and error %v; input %q", err, clip(string(in), 400))
		}
		if !hasRes && err == nil {
			c.Violate("neither-result-nor-error/"+entry, "input (%s) %q", class, clip(string(in), 400))
		}
		return err == nil
	}
	entries := []entryFn{
		{"UnmarshalDocument", func() bool {
			doc, err := jsonapi.UnmarshalDocument(in, schema)
			ok := both("UnmarshalDocument", doc != nil, err)
			if ok {
				m.checkDoc(c, s, doc, "UnmarshalDocument", class, in)
			}
			return ok
		}},
		{"UnmarshalResource", func() bool {
			res, err := jsonapi.UnmarshalResource(in, schema)
			ok := both("UnmarshalResource", res != nil, err)
			if ok {
				m.checkResource(c, s, res, "UnmarshalResource", class, in, false)
			}
			return ok
		}},
		{"UnmarshalPartialResource", func() bool {
			res, err := jsonapi.UnmarshalPartialResource(in, schema)
			ok := both("UnmarshalPartialResource", res != nil, err)
			if ok {
				m.checkResource(c, s, res, "UnmarshalPartialResource", class, in, true)
			}
			return ok
		}},
		{"UnmarshalCollection", func() bool {
			col, err := jsonapi.UnmarshalCollection(in, schema)
			ok := both("UnmarshalCollection", col != nil, err)
			if ok {
				for i := 0; i < col.Len(); i++ {
					if !m.checkResource(c, s, col.At(i), "UnmarshalCollection", class, in, false) {
						break
					}
				}
			}
			return ok
		}},
		{"UnmarshalIdentifier", func() bool {
			id, err := jsonapi.UnmarshalIdentifier(in, schema)
			ok := both("UnmarshalIdentifier", id != (jsonapi.Identifier{}), err)
			if ok && s.Type(id.Type) == nil {
				c.Violate("off-schema-type/UnmarshalIdentifier", "identifier of type %q; input %q", id.Type, clip(string(in), 300))
			}
			return ok
		}},
		{"UnmarshalIdentifiers", func() bool {
			ids, err := jsonapi.UnmarshalIdentifiers(in, schema)
			if err != nil && len(ids) > 0 {
				c.Violate("result-and-error/UnmarshalIdentifiers", "input %q", clip(string(in), 300))
			}
			if err == nil {
				for _, id := range ids {
					if s.Type(id.Type) == nil || id.ID == "" {
						c.Violate("off-schema-type/UnmarshalIdentifiers", "identifier %+v; input %q", id, clip(string(in), 300))
						break
					}
				}
			}
			return err == nil
		}},
	}
	for _, e := range entries {
		e := e
		c.Count("evaluations")
		var acc bool
		if pi := Guard(func() { acc = e.run() }); pi != nil {
			report(e.name, pi)
			c.Count("rejected/" + e.name)
			continue
		}
		if acc {
			c.Count("accepted/" + e.name)
		} else {
			c.Count("rejected/" + e.name)
		}
	}
	// NewRequest
	for _, method := range []string{http.MethodGet, http.MethodPost, http.MethodPatch, http.MethodDelete} {
		c.Count("evaluations")
		var req *jsonapi.Request
		var err error
		if pi := Guard(func() {
			// every path shape: collection, resource, related and relationship URLs
			t0 := &s.Types[0]
			paths := []string{"/" + t0.Name, "/" + t0.Name + "/id1"}
			if len(t0.Rels) > 0 {
				paths = append(paths, "/"+t0.Name+"/id1/"+t0.Rels[0].Name, "/"+t0.Name+"/id1/relationships/"+t0.Rels[0].Name)
			}
			u, _ := url.Parse(paths[(len(in)+len(method))%len(paths)])
			hr, herr := http.NewRequest(method, u.String(), bytes.NewReader(in))
			if herr != nil {
				err = herr
				return
			}
			switch (len(in) + len(class)) % 5 {
			case 1:
				hr.Body = &c05body{Reader: bytes.NewReader(in), closeErr: errors.New("close failed")} // reads fine, Close fails
			case 2:
				hr.Body = &c05body{Reader: bytes.NewReader(in), readErrAt: len(in) / 2} // the connection breaks half way
			}
			req, err = jsonapi.NewRequest(hr, schema)
		}); pi != nil {
			report("NewRequest/"+method, pi)
			c.Count("rejected/NewRequest")
			continue
		}
		if req != nil && err != nil {
			c.Violate("result-and-error/NewRequest", "input %q", clip(string(in), 300))
		}
		if req == nil && err == nil {
			c.Violate("neither-result-nor-error/NewRequest", "input %q", clip(string(in), 300))
		}
		if err == nil {
			c.Count("accepted/NewRequest")
			if req.Doc != nil {
				m.checkDoc(c, s, req.Doc, "NewRequest", class, in)
			}
		} else {
			c.Count("rejected/NewRequest")
		}
	}
	if isJSON {
		c.Nontrivial(string(in))
	}
}

var c05replacements = []string{`5`, `-1.5e3`, `"s"`, `""`, `true`, `false`, `null`, `[]`, `[1]`, `[null]`, `{}`, `{"a":1}`, `[[]]`, `{"data":null}`, `"null"`}

func (m c05) Case(c *Ctx, r *RNG) {
	d := genDoc(r, docOpts{MaxPrimary: 3, MaxIncluded: 2, Errors: true, SafeIDs: r.Bool()})
	// all fields and relationship data so that the payload carries every member kind
	f, rd := allFieldsAndRelData(d.Schema)
	d.Fields, d.RelData = f, rd
	var valid []byte
	var schema *jsonapi.Schema
	var resPayload, idPayload []byte
	if pi := Guard(func() {
		b := d.build()
		schema = b.Schema
		valid, _ = jsonapi.MarshalDocument(b.Doc, b.URL)
		t := &d.Schema.Types[r.Intn(len(d.Schema.Types))]
		rs := genResource(r, t, genNonEmptyID(r))
		resPayload = jsonapi.MarshalResource(buildResource(t, rs), "/", f[t.Name], rd)
		idPayload = []byte(fmt.Sprintf(`{"type":%q,"id":"i1"}`, t.Name))
	}); pi != nil {
		c.Violate("panic@"+pi.Frame+"/building-valid-input", "%s", pi)
		return
	}
	s := d.Schema
	if c.Index < 2 {
		c.Sample(map[string]any{"schema": s, "valid_document": string(valid), "valid_resource": string(resPayload)})
	}
	bases := [][]byte{valid, resPayload, idPayload, []byte("[" + string(resPayload) + "," + string(resPayload) + "]"), []byte("[" + string(idPayload) + "]")}
	for _, b := range bases {
		m.attack(c, s, schema, b, "valid")
	}
	base := bases[r.Intn(len(bases))]
	// (a) raw bytes and bit flips
	for i := 0; i < 6; i++ {
		n := r.Intn(40)
		raw := make([]byte, n)
		for j := range raw {
			raw[j] = byte(r.Uint64())
			if r.Bool() {
				const alpha = `{}[]":,0123456789 ntf-.eE\u`
				raw[j] = alpha[r.Intn(len(alpha))]
			}
		}
		m.attack(c, s, schema, raw, "raw")
		if len(base) > 0 {
			fl := append([]byte{}, base...)
			for k := r.Range(1, 3); k > 0; k-- {
				fl[r.Intn(len(fl))] ^= 1 << uint(r.Intn(8))
			}
			m.attack(c, s, schema, fl, "bitflip")
		}
	}
	// (b) truncation at every byte offset (of one base), and of the resource payload
	tb := base
	if len(tb) > 600 {
		tb = resPayload
	}
	step := 1
	if limit := c.Pick(200, 1500); len(tb) > limit {
		step = len(tb)/limit + 1
	}
	for cut := 0; cut < len(tb); cut += step {
		m.attack(c, s, schema, tb[:cut], "truncated")
	}
	// (c) deep nesting
	if r.Chance(1, 8) {
		depth := []int{100, 5000, 9999, 10001, 20000}[r.Intn(5)]
		open, close := "[", "]"
		if r.Bool() {
			open, close = `{"data":`, "}"
		}
		m.attack(c, s, schema, []byte(strings.Repeat(open, depth)+"1"+strings.Repeat(close, depth)), "deep")
		m.attack(c, s, schema, []byte(`{"data":{"type":"`+s.Types[0].Name+`","id":"1","attributes":`+strings.Repeat("[", depth)+strings.Repeat("]", depth)+`}}`), "deep")
	}
	// (d) structure-aware mutation of every / sampled value position; also of the same documents ENRICHED with every
	// optional member JSON:API allows and the library may or may not read (top-level links / jsonapi, links objects
	// with href and meta, resource and relationship meta and links, lid, identifier meta)
	bases2 := [][]byte{valid, resPayload}
	for _, b := range [][]byte{valid, resPayload} {
		if root, err := parseJV(b); err == nil {
			c05enrich(root, true)
			eb := root.bytes()
			m.attack(c, s, schema, eb, "enriched")
			bases2 = append(bases2, eb)
		}
	}
	for _, b := range bases2 {
		root, err := parseJV(b)
		if err != nil {
			continue
		}
		var slots []**JV
		root.slots(&slots)
		for si, slot := range slots {
			// sampled: about 12 positions per payload in quick, about 60 in thorough (enriched payloads have hundreds)
			if quota := c.Pick(12, 60); len(slots) > quota && r.Intn(len(slots)) >= quota {
				continue
			}
			orig := *slot
			for _, rep := range c05replacements {
				if !c.Thorough() && r.Chance(1, 2) {
					continue
				}
				*slot = &JV{Kind: 'r', Str: rep}
				m.attack(c, s, schema, root.bytes(), "kind-mutation")
			}
			*slot = orig
			_ = si
		}
		// (e) unknown / missing type, unknown field, duplicate key, null element
		mut := func(class string, f func(v *JV) bool) {
			cp, _ := parseJV(b)
			var all []**JV
			cp.slots(&all)
			nodes := []*JV{cp}
			for _, sl := range all {
				nodes = append(nodes, *sl)
			}
			done := false
			for _, v := range nodes {
				if v.Kind == 'o' && f(v) {
					done = true
					break
				}
			}
			if done {
				m.attack(c, s, schema, cp.bytes(), class)
			}
		}
		mut("unknown-type", func(v *JV) bool {
			for i, k := range v.Keys {
				if k == "type" && v.Vals[i].Kind == 's' {
					v.Vals[i] = &JV{Kind: 's', Str: r.Pick([]string{"nope", "", "Users", " ", "zz-decoy", "zz-decoy"})}
					return true
				}
			}
			return false
		})
		mut("unknown-type", func(v *JV) bool { // type removed
			for i, k := range v.Keys {
				if k == "type" {
					v.Keys = append(v.Keys[:i], v.Keys[i+1:]...)
					v.Vals = append(v.Vals[:i], v.Vals[i+1:]...)
					return true
				}
			}
			return false
		})
		mut("unknown-field", func(v *JV) bool {
			for i, k := range v.Keys {
				if (k == "attributes" || k == "relationships") && v.Vals[i].Kind == 'o' {
					v.Vals[i].Keys = append(v.Vals[i].Keys, r.Pick([]string{"no-such-field", "no-such-field", "", " ", "@context", "\x00", "id", "type", strings.Repeat("k", 300)}))
					v.Vals[i].Vals = append(v.Vals[i].Vals, &JV{Kind: 'r', Str: r.Pick([]string{`1`, `{"data":null}`, `"x"`})})
					return true
				}
			}
			return false
		})
		mut("unknown-field", func(v *JV) bool { // a member of any object renamed to the empty string or another odd name
			if len(v.Keys) == 0 || !r.Chance(1, 4) {
				return false
			}
			v.Keys[r.Intn(len(v.Keys))] = r.Pick([]string{"", "", "@", "-", "a.b", "\u0000"})
			return true
		})
		mut("duplicate-key", func(v *JV) bool {
			if len(v.Keys) == 0 {
				return false
			}
			i := r.Intn(len(v.Keys))
			v.Keys = append(v.Keys, v.Keys[i])
			v.Vals = append(v.Vals, &JV{Kind: 'r', Str: c05replacements[r.Intn(len(c05replacements))]})
			return r.Bool()
		})
		mut("member-removed", func(v *JV) bool { // e.g. no attributes at all, a relationship with meta but no data
			if len(v.Keys) == 0 || !r.Chance(1, 3) {
				return false
			}
			i := r.Intn(len(v.Keys))
			v.Keys = append(v.Keys[:i], v.Keys[i+1:]...)
			v.Vals = append(v.Vals[:i], v.Vals[i+1:]...)
			return true
		})
		mut("member-removed", func(v *JV) bool {
			for i, k := range v.Keys {
				if k == "attributes" {
					v.Keys = append(v.Keys[:i], v.Keys[i+1:]...)
					v.Vals = append(v.Vals[:i], v.Vals[i+1:]...)
					// and the data member of its relationships
					for j, k2 := range v.Keys {
						if k2 == "relationships" && v.Vals[j].Kind == 'o' {
							for _, rel := range v.Vals[j].Vals {
								for x, k3 := range rel.Keys {
									if k3 == "data" && rel.Kind == 'o' {
										rel.Keys = append(rel.Keys[:x], rel.Keys[x+1:]...)
										rel.Vals = append(rel.Vals[:x], rel.Vals[x+1:]...)
										break
									}
								}
							}
						}
					}
					return true
				}
			}
			return false
		})
		mut("null-element", func(v *JV) bool {
			for i, k := range v.Keys {
				if (k == "data" || k == "included") && v.Vals[i].Kind == 'a' {
					v.Vals[i].Arr = append([]*JV{{Kind: 'n'}}, v.Vals[i].Arr...)
					return true
				}
			}
			return false
		})
	}
	m.attack(c, s, schema, []byte(`[null]`), "null-element")
	m.attack(c, s, schema, []byte(`{"data":[null]}`), "null-element")
	m.attack(c, s, schema, []byte(`{"data":null,"included":[null]}`), "null-element")
}

// c05body is a request body whose Close (or a Read half way) fails.
type c05body struct {
	*bytes.Reader
	closeErr  error
	readErrAt int
	read      int
}

func (b *c05body) Read(p []byte) (int, error) {
	if b.readErrAt > 0 && b.read >= b.readErrAt {
		return 0, errors.New("connection reset")
	}
	if b.readErrAt > 0 && len(p) > b.readErrAt-b.read {
		p = p[:b.readErrAt-b.read]
	}
	n, err := b.Reader.Read(p)
	b.read += n
	return n, err
}

func (b *c05body) Close() error { return b.closeErr }

// c05enrich adds the optional members of JSON:API to a document or resource payload.
func c05enrich(v *JV, top bool) {
	if v == nil {
		return
	}
	mk := func(text string) *JV { j, _ := parseJV([]byte(text)); return j }
	set := func(o *JV, k, text string) {
		for _, have := range o.Keys {
			if have == k {
				return
			}
		}
		o.Keys = append(o.Keys, k)
		o.Vals = append(o.Vals, mk(text))
	}
	// an existing links object gets one more link, written as a link object with href and meta
	addLink := func(o *JV) {
		for i, k := range o.Keys {
			if k == "links" && o.Vals[i].Kind == 'o' {
				set(o.Vals[i], "describedby", `{"href":"/d","meta":{"m":1}}`)
				set(o.Vals[i], "about", `{"href":"/about"}`)
			}
		}
	}
	switch v.Kind {
	case 'a':
		for _, e := range v.Arr {
			c05enrich(e, false)
		}
	case 'o':
		addLink(v)
		isRes := false
		for _, k := range v.Keys {
			if k == "type" {
				isRes = true
			}
		}
		for i, k := range v.Keys {
			switch k {
			case "data", "included":
				c05enrich(v.Vals[i], false)
			case "relationships":
				if v.Vals[i].Kind == 'o' {
					for _, rel := range v.Vals[i].Vals {
						if rel.Kind == 'o' {
							addLink(rel)
							set(rel, "meta", `{"n":1,"nested":{"a":[1,2]}}`)
							set(rel, "links", `{"self":{"href":"/r/self","meta":{"count":2}},"related":"/r/related"}`)
							for j, k2 := range rel.Keys {
								if k2 == "data" {
									c05enrich(rel.Vals[j], false)
								}
							}
						}
					}
				}
			}
		}
		if isRes {
			set(v, "meta", `{"k":1,"s":"x"}`)
			set(v, "links", `{"self":{"href":"/s","meta":{"m":true}}}`)
			set(v, "lid", `"local-1"`)
		}
		if top {
			set(v, "links", `{"self":{"href":"/a","meta":{"m":1}},"related":"/x","next":null}`)
			set(v, "jsonapi", `{"version":"1.1","meta":{"x":[]},"ext":["https://e/x"]}`)
			set(v, "meta", `{"top":{"deep":[{"a":null}]}}`)
		}
	}
}

// c05named has attribute fields of user-defined types. BuildType refuses it today; a library that accepts such
// fields declares them in the schema with a kind (string, *int, ...), and an unmarshaled resource must then hold
// exactly that Go type.
type c05named struct {
	ID    string      `json:"id" api:"named"`
	Email namedString `json:"email" api:"attr"`
	Age   *namedInt   `json:"age" api:"attr"`
	Flag  namedBool   `json:"flag" api:"attr"`
	Plain string      `json:"plain" api:"attr"`
}

func (m c05) namedAttrTypes(c *Ctx) {
	c.Name = "attribute-fields-of-defined-types"
	var typ jsonapi.Type
	var err error
	if pi := Guard(func() { typ, err = jsonapi.BuildType(c05named{}) }); pi != nil {
		c.Violate("panic@"+pi.Frame+"/"+panicClass(pi.Val)+"/BuildType-defined-types", "%s", pi)
		return
	}
	if err != nil {
		c.Count("defined_attr_types_refused_by_buildtype")
		return
	}
	c.Count("defined_attr_types_accepted_by_buildtype")
	schema := &jsonapi.Schema{}
	if err := schema.AddType(typ); err != nil {
		return
	}
	ts := TypeSpec{Name: typ.Name, Wrapped: true}
	for _, n := range sortedKeys(typ.Attrs) {
		a := typ.Attrs[n]
		if a.Type < KString || a.Type > KBytes {
			continue // C20 judges a built type with an invalid kind
		}
		ts.Attrs = append(ts.Attrs, AttrSpec{Name: a.Name, Kind: a.Type, Null: a.Nullable})
	}
	s := &SchemaSpec{Types: []TypeSpec{ts}}
	for _, in := range []string{
		`{"data":{"id":"1","type":"named","attributes":{"email":"a@b","age":5,"flag":true,"plain":"p"}}}`,
		`{"data":{"id":"1","type":"named","attributes":{"email":"","age":null}}}`,
		`{"data":[{"id":"1","type":"named","attributes":{"age":7}}]}`,
		`{"id":"1","type":"named","attributes":{"email":"x","flag":false}}`,
	} {
		m.attack(c, s, schema, []byte(in), "defined-types")
	}
}

func (m c05) Directed(c *Ctx) {
	sameNameCheck(c, "C05")
	m.namedAttrTypes(c)
	t := genAllKindsType("all", false)
	tw := genAllKindsType("allw", true)
	t.Rels = []RelSpec{{Name: "one", ToOne: true, ToType: "allw"}, {Name: "many", ToType: "all"}}
	s := &SchemaSpec{Types: []TypeSpec{t, tw}}
	schema := buildSchema(s)
	c.Name = "witnesses"
	for _, in := range []string{
		`{"id":"1","type":"all","attributes":{"bytes":123}}`, `{"id":"1","type":"all","attributes":{"bytes":"not base64!"}}`, `{"id":"1","type":"all","attributes":{"nbytes":"%%%"}}`,
		`[null]`, `{"data":[null]}`, `{"id":"1","type":"nope"}`, `{"id":"1","type":"zz-decoy"}`, `{"data":{"id":"1","type":"zz-decoy"}}`, `{"data":null,"included":[{"id":"1","type":"zz-decoy"}]}`, `{"id":"1"}`, `{}`, `null`, `[]`, `""`, ``, `{"data":{"id":"1","type":"nope"}}`, `{"data":null,"included":[{"id":"1","type":"nope"}]}`,
		`{"data":{"id":"1","type":"all","relationships":{"one":{"data":[]}}}}`, `{"data":{"id":"1","type":"all","relationships":{"many":{"data":{"id":"1","type":"all"}}}}}`,
		`{"data":5}`, `{"data":"x"}`, `{"errors":5}`, `{"errors":[5]}`, `{"meta":5}`, `{"included":5}`, `{"data":{"id":5,"type":"all"}}`, `{"data":{"id":"1","type":"all","attributes":5}}`,
		`{"data":{"id":"1","type":"all","attributes":{"int8":300,"uint8":-1,"time":"x","bool":"true","string":5}}}`,
	} {
		m.attack(c, s, schema, []byte(in), "witness")
	}
	// every attribute of the all-kinds types with every wrong JSON kind
	c.Name = "every-kind-every-wrong-json-kind"
	for _, ts := range []*TypeSpec{&s.Types[0], &s.Types[1]} {
		for _, a := range ts.Attrs {
			for _, rep := range c05replacements {
				in := fmt.Sprintf(`{"data":{"id":"1","type":%q,"attributes":{%q:%s}}}`, ts.Name, a.Name, rep)
				m.attack(c, s, schema, []byte(in), "kind-mutation")
				m.attack(c, s, schema, []byte(fmt.Sprintf(`{"id":"1","type":%q,"attributes":{%q:%s}}`, ts.Name, a.Name, rep)), "kind-mutation")
			}
		}
	}
	c.Extra["exhaustive_subspaces"] = []string{"each of the 28 attribute kinds (soft and wrapped) x 15 replacement JSON values x {document, resource payload} x all entry points"}
}
