package main

import (
	"fmt"
	"reflect"
	"strings"

	"github.com/mfcochauxlaberge/jsonapi"
)

// C08 — URL.String is a canonical form that parses back to the same URL.
type c08 struct{}

func init() { register(c08{}) }

func (c08) ID() string { return "C08" }
func (c08) Size(tier string) Size {
	if tier == "thorough" {
		return Size{Batches: 32, Cases: 9000}
	}
	return Size{Batches: 16, Cases: 3000}
}
func (c08) Rule() string {
	return "case = every URL of C07's generator that the parser accepts (IDs, page values, filter labels and filter strings with space & ? # % + /, nested and/or filter trees, field-less types): s = String(); u2 = parse(s); s2 = u2.String(); then K permutations of the ORIGINAL raw URL (order of differently named parameters, order of names inside fields[...] and include lists, inserted empty list items; quick 4, thorough 8) each parsed and stringified. Oracle: u2 exists; fragments, resource type and ID, relationship, field selection (per type, as a set), sorting rules (sequence), page parameters of collection URLs, filter label and filter tree equal between u and u2; s2 == s; every permutation gives s. Non-trivial = accepted URL with >= 2 parameters or a reserved character; distinct = raw URL + schema hash."
}
func (c08) Assumptions() []string {
	return []string{"'page parameters' = all keys of Params.Page; include is not in the statement's list and is not compared (its effect on the field selection is)",
		"permutations keep the relative order of same-named parameters"}
}
func (c08) Floors(tier string, c map[string]int64) []string {
	var out []string
	for _, k := range []string{"accepted", "reparsed", "permutations", "reserved_chars", "with_filter_tree", "with_filter_label", "with_page", "collection_urls", "resource_urls", "relationship_urls"} {
		if c[k] == 0 {
			out = append(out, "never observed: "+k)
		}
	}
	return out
}

func filterStr(f *jsonapi.Filter) string {
	if f == nil {
		return "<nil>"
	}
	if kids, ok := f.Val.([]*jsonapi.Filter); ok {
		parts := []string{}
		for _, k := range kids {
			parts = append(parts, filterStr(k))
		}
		return fmt.Sprintf("{%q %q [%s] %q}", f.Field, f.Op, strings.Join(parts, " "), f.Col)
	}
	return fmt.Sprintf("{%q %q %#v %q}", f.Field, f.Op, f.Val, f.Col)
}

func compareURLs(a, b *jsonapi.URL) (string, string) {
	if !sameSeq(a.Fragments, b.Fragments) {
		return "fragments", fmt.Sprintf("fragments %q -> %q", a.Fragments, b.Fragments)
	}
	if a.ResType != b.ResType || a.ResID != b.ResID {
		return "resource", fmt.Sprintf("resource %q/%q -> %q/%q", a.ResType, a.ResID, b.ResType, b.ResID)
	}
	if a.Rel != b.Rel {
		return "relationship", fmt.Sprintf("relationship %s -> %s", relStr(a.Rel), relStr(b.Rel))
	}
	// an entry with an empty list (a type without fields) selects nothing, like no entry
	for k, v := range a.Params.Fields {
		if w := b.Params.Fields[k]; !sameSet(v, w) {
			return "fields", fmt.Sprintf("fields[%s] %v -> %v", k, v, w)
		}
	}
	for k, w := range b.Params.Fields {
		if v := a.Params.Fields[k]; !sameSet(v, w) {
			return "fields", fmt.Sprintf("fields[%s] %v -> %v", k, v, w)
		}
	}
	if !sameSeq(a.Params.SortingRules, b.Params.SortingRules) {
		return "sort", fmt.Sprintf("sorting rules %v -> %v", a.Params.SortingRules, b.Params.SortingRules)
	}
	if a.IsCol {
		if len(a.Params.Page) != len(b.Params.Page) {
			return "page", fmt.Sprintf("page parameters %v -> %v", a.Params.Page, b.Params.Page)
		}
		for k, v := range a.Params.Page {
			if w, ok := b.Params.Page[k]; !ok || !reflect.DeepEqual(v, w) {
				return "page", fmt.Sprintf("page[%s] %#v -> %#v", k, v, b.Params.Page[k])
			}
		}
	}
	if a.Params.FilterLabel != b.Params.FilterLabel {
		return "filter-label", fmt.Sprintf("filter label %q -> %q", a.Params.FilterLabel, b.Params.FilterLabel)
	}
	if filterStr(a.Params.Filter) != filterStr(b.Params.Filter) || !reflect.DeepEqual(a.Params.Filter, b.Params.Filter) {
		return "filter-tree", fmt.Sprintf("filter %s -> %s", filterStr(a.Params.Filter), filterStr(b.Params.Filter))
	}
	return "", ""
}

// permuteURL reorders the order-irrelevant parts of a raw URL spec.
func permuteURL(r *RNG, u *URLSpec) *URLSpec {
	n := *u
	// stable shuffle: differently named parameters move, same-named keep their relative order
	names := []string{}
	byName := map[string][]QP{}
	for _, p := range u.Params {
		if _, ok := byName[p.Name]; !ok {
			names = append(names, p.Name)
		}
		byName[p.Name] = append(byName[p.Name], p)
	}
	// interleave groups in random order while keeping each group's internal order
	pos := map[string]int{}
	var out []QP
	remaining := len(u.Params)
	for remaining > 0 {
		nm := names[r.Intn(len(names))]
		if pos[nm] < len(byName[nm]) {
			out = append(out, byName[nm][pos[nm]])
			pos[nm]++
			remaining--
		}
	}
	for i := range out {
		p := &out[i]
		if strings.HasPrefix(p.Name, "fields[") || p.Name == "include" {
			items := shuffleStrings(r, strings.Split(p.Value, ","))
			p.Value = strings.Join(items, ",")
		}
		if (strings.HasPrefix(p.Name, "fields[") || p.Name == "include" || p.Name == "sort") && p.Value != "" && r.Chance(1, 3) {
			// inserted empty list items
			items := strings.Split(p.Value, ",")
			k := r.Intn(len(items) + 1)
			items = append(items[:k], append([]string{""}, items[k:]...)...)
			p.Value = strings.Join(items, ",")
		}
	}
	n.Params = out
	n.RawBr = r.Bool()
	return &n
}

func hasReserved(u *URLSpec) bool {
	for _, f := range u.Frags {
		if strings.ContainsAny(f, " &?#%+/") {
			return true
		}
	}
	for _, p := range u.Params {
		if strings.ContainsAny(p.Value, " &?#%+/") {
			return true
		}
	}
	return false
}

func (m c08) run(c *Ctx, s *SchemaSpec, schema *jsonapi.Schema, spec *URLSpec, r *RNG) {
	raw := spec.Raw()
	desc := func() string { return fmt.Sprintf("raw %q schema %s", raw, clip(jsonStr(s), 1500)) }
	c.Count("evaluations")
	var u *jsonapi.URL
	var err error
	if pi := Guard(func() { u, err = jsonapi.NewURLFromRaw(schema, raw) }); pi != nil || err != nil || u == nil {
		c.Count("not_accepted")
		return // C07 judges parsing
	}
	c.Count("accepted")
	switch {
	case len(u.Fragments) == 1:
		c.Count("collection_urls")
	case len(u.Fragments) == 2:
		c.Count("resource_urls")
	default:
		c.Count("relationship_urls")
	}
	if u.Params.Filter != nil {
		c.Count("with_filter_tree")
	}
	if u.Params.FilterLabel != "" {
		c.Count("with_filter_label")
	}
	if len(u.Params.Page) > 0 {
		c.Count("with_page")
	}
	if hasReserved(spec) {
		c.Count("reserved_chars")
	}
	var str string
	if pi := Guard(func() { str = u.String() }); pi != nil {
		c.Violate("panic@"+pi.Frame+"/"+panicClass(pi.Val)+"/String", "%s; %s", pi, desc())
		return
	}
	var u2 *jsonapi.URL
	var err2 error
	if pi := Guard(func() { u2, err2 = jsonapi.NewURLFromRaw(schema, str) }); pi != nil {
		c.Violate("panic@"+pi.Frame+"/"+panicClass(pi.Val)+"/reparse", "String() = %q: %s; %s", str, pi, desc())
		return
	}
	where := func() string {
		// which part of the URL carries the reserved character (for the signature)
		for _, f := range spec.Frags {
			if strings.ContainsAny(f, " &?#%+/") {
				return "reserved-in-path"
			}
		}
		for _, p := range spec.Params {
			if strings.ContainsAny(p.Value, " &?#%+/=") {
				switch {
				case p.Name == "filter" && strings.HasPrefix(p.Value, "{"):
					return "reserved-in-filter-tree"
				case p.Name == "filter":
					return "reserved-in-filter-label"
				case strings.HasPrefix(p.Name, "page["):
					return "reserved-in-page"
				}
			}
		}
		return "plain"
	}
	_ = where
	if (err2 != nil || u2 == nil) && strings.HasPrefix(u.Params.FilterLabel, "{") {
		c.Violate("string-does-not-parse/label-starting-with-brace", "String() = %q is rejected: %v; %s", str, err2, desc())
		return
	}
	if err2 != nil || u2 == nil {
		c.Violate("string-does-not-parse", "String() = %q is rejected: %v; %s", str, err2, desc())
		return
	}
	c.Count("reparsed")
	if cl, msg := compareURLs(u, u2); cl != "" {
		c.Violate("reparse-differs/"+cl, "String() = %q parses to another URL: %s; %s", str, msg, desc())
		return
	}
	var str2 string
	if pi := Guard(func() { str2 = u2.String() }); pi != nil {
		c.Violate("panic@"+pi.Frame+"/String2", "%s", pi)
		return
	}
	if str2 != str {
		for _, l := range u.Params.Fields {
			if len(l) == 0 {
				c.Violate("not-a-fixed-point/fieldless-type-in-selection", "String() = %q but after re-parsing String() = %q; %s", str, str2, desc())
				return
			}
		}
		c.Violate("not-a-fixed-point", "String() = %q but after re-parsing String() = %q; %s", str, str2, desc())
		return
	}
	// permutations
	k := c.Pick(4, 8)
	for i := 0; i < k; i++ {
		if spec.Corrupt != "" {
			break
		}
		ps := permuteURL(r, spec)
		praw := ps.Raw()
		var pu *jsonapi.URL
		var perr error
		var pstr string
		if pi := Guard(func() {
			pu, perr = jsonapi.NewURLFromRaw(schema, praw)
			if perr == nil {
				pstr = pu.String()
			}
		}); pi != nil {
			c.Violate("panic@"+pi.Frame+"/permutation", "%s on %q", pi, praw)
			return
		}
		c.Count("permutations")
		if perr != nil {
			c.Violate("permutation-rejected", "%q is accepted but its permutation %q is rejected: %v; %s", raw, praw, perr, desc())
			return
		}
		if pstr != str {
			fieldless := false
			for _, l := range pu.Params.Fields {
				if len(l) == 0 {
					fieldless = true
				}
			}
			if fieldless {
				c.Count("permutation_with_fieldless_type_not_judged")
				continue
			}
			c.Violate("permutation-changes-string", "%q gives %q but its permutation %q gives %q; %s", raw, str, praw, pstr, desc())
			return
		}
	}
	if len(spec.Params) >= 2 || hasReserved(spec) {
		c.Nontrivial(raw + jsonStr(s))
	}
}

func (m c08) Case(c *Ctx, r *RNG) {
	s := genURLSchema(r)
	var schema *jsonapi.Schema
	if pi := Guard(func() { schema = buildSchema(s) }); pi != nil {
		return
	}
	for i := 0; i < 4; i++ {
		spec := genURL(r, s)
		// bias towards URLs the parser accepts: valid type, no unknown parameter
		if r.Chance(2, 3) {
			if _, _, ok := resTypeOf(s, spec.Frags); !ok {
				spec.Frags = []string{s.Types[r.Intn(len(s.Types))].Name}
				if r.Bool() {
					spec.Frags = append(spec.Frags, urlIDPool[r.Intn(len(urlIDPool))])
				}
			}
			var keep []QP
			for _, p := range spec.Params {
				known := p.Name == "sort" || p.Name == "include" || p.Name == "filter" || (strings.HasPrefix(p.Name, "fields[") && s.Type(strings.TrimSuffix(strings.TrimPrefix(p.Name, "fields["), "]")) != nil) || (strings.HasPrefix(p.Name, "page[") && len(p.Name) > 6)
				if known {
					keep = append(keep, p)
				}
			}
			spec.Params = keep
			spec.Corrupt = ""
		}
		if c.Index < 2 && i == 0 {
			c.Sample(map[string]any{"raw": spec.Raw(), "schema": s})
		}
		m.run(c, s, schema, spec, r)
	}
}

func (m c08) Directed(c *Ctx) {
	t1 := TypeSpec{Name: "t1", Attrs: []AttrSpec{{Name: "a", Kind: KString}, {Name: "b", Kind: KInt}}, Rels: []RelSpec{{Name: "author", ToOne: true, ToType: "t2"}, {Name: "authors", ToType: "t2"}}}
	t2 := TypeSpec{Name: "t2", Attrs: []AttrSpec{{Name: "x", Kind: KBool}}, Rels: []RelSpec{{Name: "back", ToType: "t1"}}}
	e := TypeSpec{Name: "e"}
	s := &SchemaSpec{Types: []TypeSpec{t1, t2, e}}
	schema := buildSchema(s)
	r := NewRNG(8)
	run := func(name string, frags []string, params ...QP) {
		c.Name = name
		m.run(c, s, schema, &URLSpec{Frags: frags, Params: params}, r)
	}
	for _, id := range urlIDPool {
		run("id-"+id, []string{"t1", id})
		run("rel-id-"+id, []string{"t1", id, "authors"}, QP{"page[size]", "3"})
	}
	for _, v := range []string{"a b", "a&b", "a?b", "a#b", "50%", "a+b", "a/b", "é", "a=b", "10", "007", "-1", "1e3"} {
		run("page-value-"+v, []string{"t1"}, QP{"page[size]", v}, QP{"page[number]", "2"})
		run("page-key-"+v, []string{"t1"}, QP{"page[" + v + "]", "x"})
		run("label-"+v, []string{"t1"}, QP{"filter", v})
		run("label-escaped-"+v, []string{"t1"}, QP{"filter", `x\u0007` + v + `\u007f\\\"`})
		run("filter-string-"+v, []string{"t1"}, QP{"filter", fmt.Sprintf(`{"f":"a","o":"=","v":%q}`, v)})
		run("filter-tree-"+v, []string{"t1"}, QP{"filter", fmt.Sprintf(`{"o":"and","v":[{"f":"a","o":"=","v":%q},{"o":"or","v":[{"f":"b","o":"<","v":3,"c":%q}]}]}`, v, v)})
	}
	run("label-brace", []string{"t1"}, QP{"filter", `\u007Bx`})
	run("fieldless-type", []string{"e"})
	run("fieldless-type-included", []string{"t1"}, QP{"fields[e]", "x"})
	// canonical forms much longer than what was written (no length limit applies to one and not to the other):
	// two types with 40 long-named attributes each, a filter tree of 60 leaves, 1-, 2- and 3-character type names
	{
		big1 := TypeSpec{Name: "invoices", Rels: []RelSpec{{Name: "customer", ToOne: true, ToType: "c"}}}
		big2 := TypeSpec{Name: "c", Rels: []RelSpec{{Name: "n", ToType: "invoices"}}}
		for i := 0; i < 40; i++ {
			big1.Attrs = append(big1.Attrs, AttrSpec{Name: fmt.Sprintf("a-rather-long-attribute-name-number-%02d", i), Kind: allKinds[i%len(allKinds)]})
			big2.Attrs = append(big2.Attrs, AttrSpec{Name: fmt.Sprintf("another_long_attribute_name_%02d", i), Kind: KString})
		}
		bs := &SchemaSpec{Types: []TypeSpec{big1, big2, {Name: "xy", Attrs: []AttrSpec{{Name: "q", Kind: KInt}}}}}
		bschema := buildSchema(bs)
		var leaves []string
		for i := 0; i < 60; i++ {
			leaves = append(leaves, fmt.Sprintf(`{"f":"a-rather-long-attribute-name-number-%02d","o":"=","v":"value number %d"}`, i%40, i))
		}
		for name, u := range map[string]*URLSpec{
			"long-canonical-include": {Frags: []string{"invoices"}, Params: []QP{{"include", "customer"}, {"page[size]", "10"}}},
			"long-canonical-filter":  {Frags: []string{"invoices"}, Params: []QP{{"filter", `{"o":"or","v":[` + strings.Join(leaves, ",") + `]}`}}},
			"one-letter-type":        {Frags: []string{"c"}, Params: []QP{{"include", "n"}, {"page[n]", "1"}}},
			"one-letter-related":     {Frags: []string{"invoices", "i1", "customer"}},
			"two-letter-type":        {Frags: []string{"xy"}, Params: []QP{{"fields[xy]", "q"}}},
		} {
			c.Name = name
			m.run(c, bs, bschema, u, r)
		}
	}
	run("everything", []string{"t1"}, QP{"include", "authors.back,author"}, QP{"fields[t1]", "b,a"}, QP{"fields[t2]", "x"}, QP{"sort", "-b,a"}, QP{"page[size]", "10"}, QP{"page[number]", "2"}, QP{"filter", "lbl"})
}
