package main

import (
	"encoding/json"
	"fmt"
	"reflect"
	"strings"
	"time"

	"github.com/mfcochauxlaberge/jsonapi"
)

// C20 — a struct accepted by Check is safe to use everywhere.
type c20 struct{}

func init() { register(c20{}) }

func (c20) ID() string { return "C20" }
func (c20) Size(tier string) Size {
	if tier == "thorough" {
		return Size{Batches: 16, Cases: 30000}
	}
	return Size{Batches: 16, Cases: 4000}
}
func (c20) Rule() string {
	return "case = struct SHAPE built at run time with reflect.StructOf: 0-8 exported fields in any order; ID of string and non-string types with/without api and json tags; every supported attribute Go type and unsupported ones (float64, []int, map, struct, **string, *[]string, interface); api tag forms attr / rel / 'rel,' / 'rel,t' / 'rel,t,inv' / 'rel,a,b,c' / unknown words / none; json tags missing, empty, duplicate, 'id'-colliding. Check(value) is called; if it accepts, Wrap (by value and by pointer), BuildType, Type.New, Copy, New, Get/Set of every declared field with a value of the field's type, Set(id) and MarshalResource must not panic and the built type must equal my own reading of the tags; if it rejects, BuildType must fail and Wrap must refuse. Also: two struct types written in Go source whose ID is promoted from an embedded struct (first and last field); after AddAttr/AddRel on one BuildType result, New() of it must not panic and New() of another BuildType result still has exactly the tagged fields. Non-trivial = shape with >= 2 tagged fields; distinct = shape text."
}
func (c20) Assumptions() []string {
	return []string{"reflect.StructOf cannot create named struct types, unexported or embedded fields, or methods (so MetaHolder structs are not generated): those shapes are outside what this run-time technique reaches",
		"Check is always given a struct VALUE ('if Check accepts a value of it'); Wrap and BuildType are then tried by value and by pointer",
		"json tags carry no options (',omitempty'); the library takes the tag text verbatim as the field name"}
}
func (c20) Floors(tier string, c map[string]int64) []string {
	var out []string
	if c["check_accepts"] < 100 || c["check_rejects"] < 100 {
		out = append(out, fmt.Sprintf("Check accepted %d and rejected %d shapes (need 100 each)", c["check_accepts"], c["check_rejects"]))
	}
	if c["field_roundtrips"] < 500 {
		out = append(out, "fewer than 500 Get/Set round trips on declared fields")
	}
	return out
}

type c20field struct {
	Name string  `json:"name"`
	Go   string  `json:"go_type"`
	JSON *string `json:"json_tag"` // nil: no json tag
	API  *string `json:"api_tag"`  // nil: no api tag
}

type c20shape struct {
	Fields []c20field `json:"fields"`
}

var c20goTypes = map[string]reflect.Type{
	"float64": reflect.TypeOf(float64(0)), "[]int": reflect.TypeOf([]int{}), "map": reflect.TypeOf(map[string]string{}),
	"struct": reflect.TypeOf(struct{ X int }{}), "**string": reflect.TypeOf((**string)(nil)), "*[]string": reflect.TypeOf((*[]string)(nil)),
	"[]string": reflect.TypeOf([]string{}), "interface": reflect.TypeOf((*any)(nil)).Elem(), "*float64": reflect.TypeOf((*float64)(nil)),
	"[]*string": reflect.TypeOf([]*string{}), "rune-array": reflect.TypeOf([2]byte{}),
}

// namedString is a user-defined string type (an ID field may be declared with one).
type namedString string

// user-defined types whose underlying type is a supported one: as attribute / relationship field types they are NOT
// among the supported types (nothing downstream can store into or read from them)
type namedIDs []string
type namedBytes []byte
type namedInt int
type namedBool bool

func init() {
	c20goTypes["named-string"] = reflect.TypeOf(namedString(""))
	c20goTypes["*named-string"] = reflect.TypeOf((*namedString)(nil))
	c20goTypes["named-ids"] = reflect.TypeOf(namedIDs{})
	c20goTypes["named-bytes"] = reflect.TypeOf(namedBytes{})
	c20goTypes["named-int"] = reflect.TypeOf(namedInt(0))
	c20goTypes["named-bool"] = reflect.TypeOf(namedBool(false))
	for _, k := range allKinds {
		for _, null := range []bool{false, true} {
			c20goTypes[kindName(k, null)] = goType(k, null)
		}
	}
}

var c20supported = func() []string {
	out := []string{}
	for _, k := range allKinds {
		out = append(out, kindName(k, false), kindName(k, true))
	}
	return out
}()
var c20unsupported = []string{"float64", "[]int", "map", "struct", "**string", "*[]string", "[]string", "interface", "*float64", "[]*string", "rune-array",
	"named-string", "*named-string", "named-ids", "named-bytes", "named-int", "named-bool"}

func sp(s string) *string { return &s }

func (m c20) genShape(r *RNG) c20shape {
	var sh c20shape
	jsonNames := []string{"a", "b", "ab", "name", "id", "x-y", "f_1", "A", "Name", "AB", "aB", "-", "-", "--", "-x", "type", "type", "meta", "links"}
	nf := r.Range(0, 7)
	for i := 0; i < nf; i++ {
		f := c20field{Name: fmt.Sprintf("F%d", i)}
		// json tag
		switch r.Intn(12) {
		case 0:
			f.JSON = nil
		case 1:
			f.JSON = sp("")
		default:
			f.JSON = sp(jsonNames[r.Intn(len(jsonNames))])
			if r.Chance(3, 4) {
				f.JSON = sp(fmt.Sprintf("n%d", i)) // mostly unique names, so that valid shapes are common
			}
			if r.Chance(1, 12) {
				f.JSON = sp(*f.JSON + r.Pick([]string{",omitempty", ",string", ",", ",omitempty,string"})) // encoding/json options
			}
		}
		// api tag and Go type
		switch r.Intn(12) {
		case 0, 1, 2, 3, 4:
			f.API = sp("attr")
			f.Go = c20supported[r.Intn(len(c20supported))]
			if r.Chance(1, 10) {
				f.Go = c20unsupported[r.Intn(len(c20unsupported))]
			}
		case 5, 6, 7, 8:
			f.API = sp([]string{"rel,t", "rel,t,inv", "rel,users", "rel,a,b", "rel", "rel,", "rel,a,b,c", "rel,,x"}[r.Intn(8)])
			if r.Chance(1, 2) {
				f.API = sp([]string{"rel,t", "rel,t,inv", "rel,users,author"}[r.Intn(3)])
			}
			f.Go = []string{"string", "[]string"}[r.Intn(2)]
			if r.Chance(1, 10) {
				f.Go = []string{"int", "*string", "[]int", "bytes", "*[]string", "named-string", "named-ids", "*named-string"}[r.Intn(8)]
			}
		case 9:
			f.API = nil
			f.Go = append(c20supported, c20unsupported...)[r.Intn(len(c20supported)+len(c20unsupported))]
		case 10:
			f.API = sp([]string{"attribute", "relationship", "attr,x", "Attr", "rel;t", " attr", "-"}[r.Intn(7)])
			f.Go = append(c20supported, c20unsupported...)[r.Intn(len(c20supported)+len(c20unsupported))]
		default:
			f.API = sp("")
			f.Go = c20supported[r.Intn(len(c20supported))]
		}
		sh.Fields = append(sh.Fields, f)
	}
	// ID field
	if r.Chance(9, 10) {
		id := c20field{Name: "ID", Go: "string", JSON: sp("id"), API: sp(r.Pick([]string{"t", "users", "a-b", "type_1"}))}
		switch r.Intn(14) {
		case 12, 13:
			id.Go = "named-string" // type UUID string
		case 0:
			id.Go = []string{"int", "bytes", "*string", "bool", "[]string", "uint8"}[r.Intn(6)]
		case 1:
			id.API = nil
		case 2:
			id.API = sp("")
		case 3:
			id.JSON = nil
		case 4:
			id.JSON = sp(r.Pick([]string{"identifier", "ID", "", "n0"}))
		}
		pos := r.Intn(len(sh.Fields) + 1)
		sh.Fields = append(sh.Fields[:pos], append([]c20field{id}, sh.Fields[pos:]...)...)
	}
	return sh
}

func (sh c20shape) build() reflect.Type {
	fields := make([]reflect.StructField, len(sh.Fields))
	for i, f := range sh.Fields {
		var tags []string
		if f.JSON != nil {
			tags = append(tags, fmt.Sprintf(`json:"%s"`, *f.JSON))
		}
		if f.API != nil {
			tags = append(tags, fmt.Sprintf(`api:"%s"`, *f.API))
		}
		fields[i] = reflect.StructField{Name: f.Name, Type: c20goTypes[f.Go], Tag: reflect.StructTag(strings.Join(tags, " "))}
	}
	return reflect.StructOf(fields)
}

type c20expect struct {
	typeName string
	attrs    map[string]jsonapi.Attr
	rels     map[string]jsonapi.Rel
	goTypes  map[string]reflect.Type
	problems []string // things that make "exactly the tagged fields" unsatisfiable
	tagged   int
}

// read is my own reading of the tags and Go types.
func (sh c20shape) read() c20expect {
	e := c20expect{attrs: map[string]jsonapi.Attr{}, rels: map[string]jsonapi.Rel{}, goTypes: map[string]reflect.Type{}}
	for _, f := range sh.Fields {
		if f.Name == "ID" && f.API != nil {
			e.typeName = *f.API
		}
	}
	seen := map[string]int{}
	for _, f := range sh.Fields {
		if f.JSON != nil && *f.JSON != "" {
			seen[*f.JSON]++
		}
	}
	for _, f := range sh.Fields {
		if f.API == nil || f.Name == "ID" {
			continue
		}
		api := *f.API
		isAttr := api == "attr"
		isRel := api == "rel" || strings.HasPrefix(api, "rel,")
		if !isAttr && !isRel {
			continue
		}
		e.tagged++
		name := ""
		if f.JSON != nil {
			name = *f.JSON
		}
		if name == "" {
			e.problems = append(e.problems, "tagged field "+f.Name+" has no json name")
			continue
		}
		if seen[name] > 1 {
			e.problems = append(e.problems, "json name "+name+" is used by several fields")
		}
		if name == "id" {
			e.problems = append(e.problems, "tagged field "+f.Name+" collides with id")
		}
		e.goTypes[name] = c20goTypes[f.Go]
		if isAttr {
			k, null := jsonapi.AttrTypeInvalid, false
			for _, kk := range allKinds {
				for _, nn := range []bool{false, true} {
					if f.Go == kindName(kk, nn) {
						k, null = kk, nn
					}
				}
			}
			if k == jsonapi.AttrTypeInvalid {
				e.problems = append(e.problems, "attribute "+f.Name+" has unsupported Go type "+f.Go)
			}
			e.attrs[name] = jsonapi.Attr{Name: name, Type: k, Nullable: null}
			continue
		}
		parts := strings.Split(api, ",")
		rel := jsonapi.Rel{FromType: e.typeName, FromName: name, ToOne: f.Go != "[]string"}
		if len(parts) >= 2 {
			rel.ToType = parts[1]
		}
		if len(parts) == 3 {
			rel.ToName = parts[2]
		}
		if len(parts) > 3 {
			e.problems = append(e.problems, "relationship tag of "+f.Name+" has too many parts")
		}
		if len(parts) < 2 {
			e.problems = append(e.problems, "relationship tag of "+f.Name+" has no target type")
		}
		if f.Go != "string" && f.Go != "[]string" {
			e.problems = append(e.problems, "relationship "+f.Name+" has Go type "+f.Go)
		}
		e.rels[name] = rel
	}
	return e
}

// sampleValue returns a non-zero value of a field's Go type.
func c20sample(t reflect.Type, r *RNG) reflect.Value {
	for _, k := range allKinds {
		for _, null := range []bool{false, true} {
			if goType(k, null) == t {
				v := genVal(r, k, null)
				v.UNil = false
				return reflect.ValueOf(v.Go())
			}
		}
	}
	if t == reflect.TypeOf([]string{}) {
		return reflect.ValueOf([]string{"i2", "i1"})
	}
	return reflect.Zero(t)
}

func (m c20) Case(c *Ctx, r *RNG) {
	sh := m.genShape(r)
	if c.Index < 3 {
		c.Sample(sh)
	}
	m.run(c, sh, r)
}

func (m c20) run(c *Ctx, sh c20shape, r *RNG) {
	st, exp := sh.build(), sh.read()
	// a json tag with options after a comma ("title,omitempty"): whether the field is named by the whole tag or by
	// the part before the comma is the library's choice; it has to make the SAME choice everywhere. The reading
	// that BuildType reports is the one everything else is held to.
	hasOpt := false
	for _, f := range sh.Fields {
		if f.JSON != nil && strings.Contains(*f.JSON, ",") {
			hasOpt = true
		}
	}
	if hasOpt {
		c.Count("shapes_with_json_tag_options")
		stripped := sh
		stripped.Fields = append([]c20field{}, sh.Fields...)
		for i, f := range stripped.Fields {
			if f.JSON != nil {
				stripped.Fields[i].JSON = sp(strings.SplitN(*f.JSON, ",", 2)[0])
			}
		}
		alt := stripped.read()
		if len(alt.problems) == 0 {
			var typ jsonapi.Type
			var err error
			if pi := Guard(func() { typ, err = jsonapi.BuildType(reflect.New(st).Interface()) }); pi == nil && err == nil &&
				c20compareType(alt, typ.Name, typ.Attrs, typ.Rels) == "" && c20compareType(exp, typ.Name, typ.Attrs, typ.Rels) != "" {
				exp = alt
				c.Count("json_tag_options_read_as_name_before_comma")
			}
		}
	}
	m.runType(c, st, exp, jsonStr(sh), r)
}

// Struct types written in Go source (what reflect.StructOf cannot make): the ID and a field promoted from an
// embedded struct.
type C20Base struct {
	ID string `json:"id" api:"emb"`
}
type c20Embedded struct {
	C20Base
	Name string   `json:"name" api:"attr"`
	Many []string `json:"many" api:"rel,emb"`
}
type c20EmbeddedLast struct {
	Name *int64 `json:"name" api:"attr"`
	One  string `json:"one" api:"rel,emb2,back"`
	C20Base2
}
// C20Opt is embedded by pointer: the pointer is nil in every instance the library creates.
type C20Opt struct {
	Note string
}
type c20EmbeddedNilPtr struct {
	ID string `json:"id" api:"embp"`
	*C20Opt
	Name string   `json:"name" api:"attr"`
	Tags []string `json:"tags" api:"rel,embp"`
}
type C20Base2 struct {
	ID string `json:"id" api:"emb2"`
}

func (m c20) staticTypes(c *Ctx, r *RNG) {
	c.Name = "embedded-id"
	m.runType(c, reflect.TypeOf(c20Embedded{}), c20expect{typeName: "emb", tagged: 2,
		attrs:   map[string]jsonapi.Attr{"name": {Name: "name", Type: jsonapi.AttrTypeString}},
		rels:    map[string]jsonapi.Rel{"many": {FromType: "emb", FromName: "many", ToType: "emb"}},
		goTypes: map[string]reflect.Type{"name": reflect.TypeOf(""), "many": reflect.TypeOf([]string{})}}, "struct{C20Base{ID string `json:\"id\" api:\"emb\"`}; Name string attr; Many []string rel,emb}", r)
	c.Count("static_struct_types")
	c.Name = "embedded-nil-pointer-before-fields"
	m.runType(c, reflect.TypeOf(c20EmbeddedNilPtr{}), c20expect{typeName: "embp", tagged: 2,
		attrs:   map[string]jsonapi.Attr{"name": {Name: "name", Type: jsonapi.AttrTypeString}},
		rels:    map[string]jsonapi.Rel{"tags": {FromType: "embp", FromName: "tags", ToType: "embp"}},
		goTypes: map[string]reflect.Type{"name": reflect.TypeOf(""), "tags": reflect.TypeOf([]string{})}}, "struct{ID string; *C20Opt (nil); Name string attr; Tags []string rel,embp}", r)
	c.Count("static_struct_types")
	c.Name = "embedded-id-last"
	m.runType(c, reflect.TypeOf(c20EmbeddedLast{}), c20expect{typeName: "emb2", tagged: 2,
		attrs:   map[string]jsonapi.Attr{"name": {Name: "name", Type: jsonapi.AttrTypeInt64, Nullable: true}},
		rels:    map[string]jsonapi.Rel{"one": {FromType: "emb2", FromName: "one", ToOne: true, ToType: "emb2", ToName: "back"}},
		goTypes: map[string]reflect.Type{"name": reflect.TypeOf((*int64)(nil)), "one": reflect.TypeOf("")}}, "struct{Name *int64 attr; One string rel,emb2,back; C20Base2{ID string `json:\"id\" api:\"emb2\"`}}", r)
	c.Count("static_struct_types")
}

func (m c20) runType(c *Ctx, st reflect.Type, exp c20expect, desc string, r *RNG) {
	c.Count("evaluations")
	val := reflect.New(st) // pointer to a zero struct
	var checkErr error
	if pi := Guard(func() { checkErr = jsonapi.Check(val.Elem().Interface()) }); pi != nil {
		c.Violate("panic@"+pi.Frame+"/"+panicClass(pi.Val)+"/Check", "Check panicked: %s on %s", pi, desc)
		return
	}
	if checkErr != nil {
		c.Count("check_rejects")
		// BuildType must fail, Wrap must refuse
		for _, byPtr := range []bool{false, true} {
			arg := val.Elem().Interface()
			how := "value"
			if byPtr {
				arg, how = val.Interface(), "pointer"
			}
			var err error
			var typ jsonapi.Type
			if pi := Guard(func() { typ, err = jsonapi.BuildType(arg) }); pi != nil {
				c.Violate("rejected-but-buildtype-panics/"+panicClass(pi.Val), "Check says %q; BuildType(%s) panicked: %s on %s", checkErr, how, pi, desc)
				return
			}
			if err == nil {
				c.Violate("rejected-but-buildtype-succeeds", "Check says %q but BuildType(%s) returned type %q for %s", checkErr, how, typ.Name, desc)
				return
			}
			var w *jsonapi.Wrapper
			pi := Guard(func() { w = jsonapi.Wrap(arg) })
			if pi == nil {
				c.Violate("rejected-but-wrap-accepts", "Check says %q but Wrap(%s) returned a wrapper (%v) for %s", checkErr, how, w != nil, desc)
				return
			}
			if pi.Runtime { // a deliberate panic(...) is how Wrap refuses; a runtime error is a crash
				c.Violate("rejected-but-wrap-crashes/"+panicClass(pi.Val), "Check says %q; Wrap(%s) did not refuse but crashed: %s on %s", checkErr, how, pi, desc)
				return
			}
		}
		if exp.tagged >= 2 {
			c.Nontrivial(desc)
		}
		return
	}
	c.Count("check_accepts")
	// accepted: everything must work
	fail := func(op string, pi *PanicInfo) {
		cls := "clean-shape"
		if len(exp.problems) > 0 {
			cls = "shape-problem"
		}
		c.Violate("accepted-but-panics@"+pi.Frame+"/"+panicClass(pi.Val)+"/"+op+"/"+cls, "Check accepted the struct but %s panicked: %s; my reading: %v; shape %s", op, pi, exp.problems, desc)
	}
	if len(exp.problems) > 0 {
		// "exactly the tagged attributes and relationships" cannot be satisfied for this shape
		c.Violate("accepted-unusable-shape/"+problemClass(exp.problems[0]), "Check accepted a struct for which the promise cannot hold: %v; shape %s", exp.problems, desc)
		// still look for panics below, but one report per shape is enough
		return
	}
	if exp.typeName == "" {
		c.Violate("accepted-without-type-name", "Check accepted a struct whose ID tag gives no type name; shape %s", desc)
		return
	}
	for _, byPtr := range []bool{true, false} {
		arg := val.Elem().Interface()
		how := "value"
		if byPtr {
			arg, how = reflect.New(st).Interface(), "pointer"
		}
		var w *jsonapi.Wrapper
		if pi := Guard(func() { w = jsonapi.Wrap(arg) }); pi != nil {
			fail("Wrap("+how+")", pi)
			return
		}
		var typ jsonapi.Type
		var err error
		if pi := Guard(func() { typ, err = jsonapi.BuildType(arg) }); pi != nil {
			fail("BuildType("+how+")", pi)
			return
		}
		if err != nil {
			c.Violate("accepted-but-buildtype-fails", "BuildType(%s): %v; shape %s", how, err, desc)
			return
		}
		// BuildType of a typed nil pointer: refusing is fine; a type that comes back must be the right one
		{
			var tn jsonapi.Type
			var en error
			if pi := Guard(func() { tn, en = jsonapi.BuildType(reflect.Zero(reflect.PtrTo(st)).Interface()) }); pi != nil {
				fail("BuildType(typed nil pointer)", pi)
				return
			}
			if en == nil {
				c.Count("buildtype_accepts_typed_nil_pointer")
				if s := c20compareType(exp, tn.Name, tn.Attrs, tn.Rels); s != "" {
					c.Violate("built-type-differs/typed-nil-pointer/"+strings.SplitN(s, ":", 2)[0], "BuildType((*T)(nil)): %s; shape %s", s, desc)
					return
				}
			}
		}
		// structure
		if s := c20compareType(exp, typ.Name, typ.Attrs, typ.Rels); s != "" {
			c.Violate("built-type-differs/"+strings.SplitN(s, ":", 2)[0], "BuildType(%s): %s; shape %s", how, s, desc)
			return
		}
		var wt jsonapi.Type
		if pi := Guard(func() { wt = w.GetType() }); pi != nil {
			fail("GetType", pi)
			return
		}
		if s := c20compareType(exp, wt.Name, w.Attrs(), w.Rels()); s != "" {
			c.Violate("wrapper-structure-differs/"+strings.SplitN(s, ":", 2)[0], "Wrap(%s): %s; shape %s", how, s, desc)
			return
		}
		// instances
		var inst, cp, nw jsonapi.Resource
		if pi := Guard(func() { inst = typ.New() }); pi != nil {
			fail("Type.New", pi)
			return
		}
		// a built type is a value of its own: giving it one more attribute does not reach into what its
		// constructor makes (instances are still the struct: exactly the tagged fields)
		{
			var inst2 jsonapi.Resource
			if pi := Guard(func() {
				typ2, _ := jsonapi.BuildType(arg)
				_ = typ2.AddAttr(jsonapi.Attr{Name: "zz-extra", Type: jsonapi.AttrTypeString})
				_ = typ2.AddRel(jsonapi.Rel{FromType: typ2.Name, FromName: "zz-extra-rel", ToType: typ2.Name})
				inst2 = typ2.New()
				_ = inst2.Get("id")
				inst2 = typ.New()
			}); pi != nil {
				fail("Type.New-after-AddAttr", pi)
				return
			}
			if s := c20compareType(exp, inst2.GetType().Name, inst2.Attrs(), inst2.Rels()); s != "" {
				c.Violate("instance-structure-differs/after-type-edit/"+strings.SplitN(s, ":", 2)[0], "after AddAttr/AddRel on another BuildType result, Type.New(): %s; shape %s", s, desc)
				return
			}
			c.Count("new_after_type_edit")
		}
		if pi := Guard(func() { cp = w.Copy() }); pi != nil {
			fail("Copy", pi)
			return
		}
		if pi := Guard(func() { nw = w.New() }); pi != nil {
			fail("New", pi)
			return
		}
		for _, res := range []jsonapi.Resource{w, inst, cp, nw} {
			res := res
			// id
			if pi := Guard(func() {
				res.Set("id", "some-id")
				if g, _ := res.Get("id").(string); g != "some-id" {
					c.Violate("id-not-stored", "Set(id) then Get(id) = %v; shape %s", res.Get("id"), desc)
				}
				if ider, ok := res.(interface{ GetID() string }); ok {
					if g := ider.GetID(); g != "some-id" {
						c.Violate("id-not-stored/GetID", "Set(id) then GetID() = %q; shape %s", g, desc)
					}
				}
			}); pi != nil {
				fail("Set/Get(id)", pi)
				return
			}
			for name, gt := range exp.goTypes {
				name, gt := name, gt
				var got any
				sv := c20sample(gt, r)
				if pi := Guard(func() { got = res.Get(name) }); pi != nil {
					fail("Get", pi)
					return
				}
				if got != nil && reflect.TypeOf(got) != gt {
					c.Violate("get-wrong-go-type", "Get(%q) returned %T, the field is %s; shape %s", name, got, gt, desc)
					return
				}
				if pi := Guard(func() { res.Set(name, sv.Interface()); got = res.Get(name) }); pi != nil {
					fail("Set", pi)
					return
				}
				if !reflect.DeepEqual(got, sv.Interface()) {
					if !(got == nil && sv.Kind() == reflect.Ptr && sv.IsNil()) {
						c.Violate("set-not-read-back", "Set(%q, %s) then Get = %s; shape %s", name, describeGo(sv.Interface()), describeGo(got), desc)
						return
					}
				}
				c.Count("field_roundtrips")
			}
			var out []byte
			fields := append(sortedKeys(exp.attrs), sortedKeys(exp.rels)...)
			if pi := Guard(func() {
				out = jsonapi.MarshalResource(res, "/", fields, map[string][]string{exp.typeName: sortedKeys(exp.rels)})
			}); pi != nil {
				fail("MarshalResource", pi)
				return
			}
			if !json.Valid(out) {
				c.Violate("marshal-invalid-json", "MarshalResource gave %q; shape %s", clip(string(out), 300), desc)
				return
			}
		}
	}
	c.Count("accepted_and_safe")
	if exp.tagged >= 2 {
		c.Nontrivial(desc)
	}
}

func problemClass(p string) string {
	switch {
	case strings.Contains(p, "no json name"):
		return "missing-json-name"
	case strings.Contains(p, "several fields"):
		return "duplicate-json-name"
	case strings.Contains(p, "collides with id"):
		return "json-name-id"
	case strings.Contains(p, "unsupported Go type"):
		return "unsupported-attr-type"
	case strings.Contains(p, "too many parts"):
		return "rel-tag-too-long"
	case strings.Contains(p, "no target type"):
		return "rel-tag-without-target"
	case strings.Contains(p, "has Go type"):
		return "rel-go-type"
	}
	return "other"
}

func c20compareType(exp c20expect, name string, attrs map[string]jsonapi.Attr, rels map[string]jsonapi.Rel) string {
	if name != exp.typeName {
		return fmt.Sprintf("type-name: %q, the ID tag says %q", name, exp.typeName)
	}
	if len(attrs) != len(exp.attrs) {
		return fmt.Sprintf("attr-count: %d attributes, %d are tagged (%v vs %v)", len(attrs), len(exp.attrs), sortedKeys(attrs), sortedKeys(exp.attrs))
	}
	for k, a := range exp.attrs {
		if g, ok := attrs[k]; !ok || g != a {
			return fmt.Sprintf("attr: %q is %+v (present=%v), tags and Go type declare %+v", k, g, ok, a)
		}
	}
	if len(rels) != len(exp.rels) {
		return fmt.Sprintf("rel-count: %d relationships, %d are tagged", len(rels), len(exp.rels))
	}
	for k, rl := range exp.rels {
		if g, ok := rels[k]; !ok || g != rl {
			return fmt.Sprintf("rel: %q is %s (present=%v), tags and Go type declare %s", k, relStr(g), ok, relStr(rl))
		}
	}
	return ""
}

func (m c20) Directed(c *Ctx) {
	sameNameCheck(c, "C20")
	tagOptCheck(c, "C20")
	r := NewRNG(7)
	mk := func(fs ...c20field) c20shape { return c20shape{Fields: fs} }
	id := c20field{Name: "ID", Go: "string", JSON: sp("id"), API: sp("t")}
	c.Name = "witness-non-string-id"
	m.run(c, mk(c20field{Name: "ID", Go: "int", JSON: sp("id"), API: sp("t")}), r)
	c.Name = "witness-rel-without-target"
	m.run(c, mk(id, c20field{Name: "F0", Go: "string", JSON: sp("r"), API: sp("rel")}), r)
	c.Name = "witness-attr-without-json"
	m.run(c, mk(id, c20field{Name: "F0", Go: "string", API: sp("attr")}), r)
	c.Name = "witness-id-json-not-id"
	m.run(c, mk(c20field{Name: "ID", Go: "string", JSON: sp("identifier"), API: sp("t")}, c20field{Name: "F0", Go: "string", JSON: sp("a"), API: sp("attr")}), r)
	c.Name = "witness-duplicate-json"
	m.run(c, mk(id, c20field{Name: "F0", Go: "string", JSON: sp("a"), API: sp("attr")}, c20field{Name: "F1", Go: "int", JSON: sp("a"), API: sp("attr")}), r)
	c.Name = "named-string-id"
	m.run(c, mk(c20field{Name: "ID", Go: "named-string", JSON: sp("id"), API: sp("t")}, c20field{Name: "F0", Go: "string", JSON: sp("a"), API: sp("attr")}, c20field{Name: "R", Go: "[]string", JSON: sp("r"), API: sp("rel,t,inv")}), r)
	c.Name = "all-supported-types"
	all := []c20field{id}
	for i, g := range c20supported {
		all = append(all, c20field{Name: fmt.Sprintf("F%d", i), Go: g, JSON: sp(fmt.Sprintf("n%d", i)), API: sp("attr")})
	}
	all = append(all, c20field{Name: "R1", Go: "string", JSON: sp("r1"), API: sp("rel,t,inv")}, c20field{Name: "R2", Go: "[]string", JSON: sp("r2"), API: sp("rel,users")})
	m.run(c, mk(all...), r)
	m.staticTypes(c, r)
	_ = time.Now
}
