package main

import (
	"fmt"

	"github.com/mfcochauxlaberge/jsonapi"
)

// C19 — SoftCollection behaves as an ordered in-memory store.
type c19 struct{}

func init() { register(c19{}) }

func (c19) ID() string { return "C19" }
func (c19) Size(tier string) Size {
	if tier == "thorough" {
		return Size{Batches: 16, Cases: 20000}
	}
	return Size{Batches: 8, Cases: 1200}
}
func (c19) Rule() string {
	return "case = history of 1-80 operations on one SoftCollection: SetType (first, and again later with a wider / narrower / disjoint type), Add (soft or struct-backed resource of the collection's type, a narrower, a wider or a conflicting type, soft ones sometimes with a relationship that has no target type; duplicate IDs), Remove (front/middle/end/missing/duplicate ID), AddAttr / AddRel (fresh and duplicate names), Set on a resource after it was added; after EVERY operation Len, At(i) for i in [-2,len+2], Resource(id) and, for every stored resource, Attrs/Rels and Get of every current field are compared with a list model. Add of an element of the collection itself (the pointer At returns) appends a second, equal element. Non-trivial = history with >= 2 Adds, >= 1 Remove and >= 1 field added after an Add; distinct = hash of the operation list."
}
func (c19) Assumptions() []string {
	return []string{"each field name has one definition per history for SetType/AddAttr/AddRel (SetType never redefines a name with another kind); conflicting definitions only arrive through Add'ed resources",
		"a value whose field left the collection's type (SetType to a narrower type) and came back later is not judged (the statement does not say whether it survives)",
		"a value is stored at Add iff it is well-typed for the collection's definition of that name"}
}
func (c19) Floors(tier string, c map[string]int64) []string {
	var out []string
	for _, k := range []string{"op/SetType", "op/Add", "op/Remove", "op/AddAttr", "op/AddRel", "op/SetOriginal", "remove/front", "remove/middle", "remove/end", "remove/missing", "add/conflicting", "add/wider", "add/wrapped", "add/own-type-pointer", "settype/after-add"} {
		if c[k] == 0 {
			out = append(out, "never observed: "+k)
		}
	}
	return out
}

type c19op struct {
	Op      string    `json:"op"`
	Fields  []string  `json:"fields,omitempty"` // SetType: field names of the new type
	Name    string    `json:"name,omitempty"`
	Res     *ResSpec  `json:"res,omitempty"`
	ResT    *TypeSpec `json:"res_type,omitempty"`
	ID      string    `json:"id,omitempty"`
	OwnType bool      `json:"own_type,omitempty"` // Add: the resource is created from the collection's own *Type
	Target  int       `json:"target,omitempty"`   // SetOriginal: which added resource
	Val     *Val      `json:"val,omitempty"`
}

type c19elem struct {
	rs      *ResSpec
	unknown map[string]bool
}

type c19dict struct {
	attrs map[string]AttrSpec
	rels  map[string]RelSpec
	names []string
}

func (d *c19dict) typeSpec(name string, fields []string) TypeSpec {
	t := TypeSpec{Name: name}
	for _, f := range fields {
		if a, ok := d.attrs[f]; ok {
			t.Attrs = append(t.Attrs, a)
		} else if r, ok := d.rels[f]; ok {
			t.Rels = append(t.Rels, r)
		}
	}
	return t
}

func (m c19) Case(c *Ctx, r *RNG) {
	d := &c19dict{attrs: map[string]AttrSpec{}, rels: map[string]RelSpec{}}
	for i := 0; i < 5; i++ {
		n := fmt.Sprintf("f%d", i)
		d.attrs[n] = AttrSpec{Name: n, Kind: allKinds[r.Intn(len(allKinds))], Null: r.Bool()}
		d.names = append(d.names, n)
	}
	for i := 5; i < 8; i++ {
		n := fmt.Sprintf("f%d", i)
		d.rels[n] = RelSpec{Name: n, ToOne: r.Bool(), ToType: "x"}
		d.names = append(d.names, n)
	}
	// c0..c2 are always part of the collection's type; conflicting resources redefine them
	d.attrs["c0"] = AttrSpec{Name: "c0", Kind: allKinds[r.Intn(len(allKinds))], Null: r.Bool()}
	d.rels["c1"] = RelSpec{Name: "c1", ToOne: true, ToType: "x"}
	d.rels["c2"] = RelSpec{Name: "c2", ToType: "x"}
	always := []string{"c0", "c1", "c2"}
	n := r.Range(1, 80)
	if r.Bool() {
		n = r.Range(1, 20)
	}
	ops := []c19op{{Op: "SetType", Name: "col", Fields: append(subsetStrings(r, d.names), always...)}}
	ids := []string{"1", "2", "3", "a", "b", ""}
	nAdded := 0
	for len(ops) < n {
		switch r.Intn(14) {
		case 0:
			ops = append(ops, c19op{Op: "SetType", Name: []string{"col", "col2"}[r.Intn(2)], Fields: append(subsetStrings(r, d.names), always...)})
		case 1, 2, 3, 4:
			// resource type: subset of the dictionary, possibly with conflicting definitions
			rt := d.typeSpec([]string{"col", "other"}[r.Intn(2)], subsetStrings(r, append(append([]string{}, d.names...), always...)))
			rt.Wrapped = r.Chance(1, 3)
			if r.Chance(1, 3) {
				// conflicts: names the collection always has, with other definitions
				switch r.Intn(5) {
				case 0: // attribute name offered as a relationship
					rt.Attrs = filterAttrs(rt.Attrs, "c0")
					rt.Rels = append(filterRels(rt.Rels, "c0"), RelSpec{Name: "c0", ToOne: r.Bool(), ToType: "y"})
				case 1: // same attribute name, other kind
					k := d.attrs["c0"].Kind%14 + 1
					rt.Attrs = append(filterAttrs(rt.Attrs, "c0"), AttrSpec{Name: "c0", Kind: k, Null: r.Bool()})
				case 2: // same kind, other nullability
					rt.Attrs = append(filterAttrs(rt.Attrs, "c0"), AttrSpec{Name: "c0", Kind: d.attrs["c0"].Kind, Null: !d.attrs["c0"].Null})
				case 3: // to-one relationship name offered as an attribute / as to-many
					rt.Rels = filterRels(rt.Rels, "c1")
					if r.Bool() {
						rt.Attrs = append(filterAttrs(rt.Attrs, "c1"), AttrSpec{Name: "c1", Kind: []int{KString, KInt, KBytes}[r.Intn(3)], Null: r.Chance(1, 3)})
					} else {
						rt.Rels = append(rt.Rels, RelSpec{Name: "c1", ToType: "x"})
					}
				default: // to-many relationship name offered as an attribute / as to-one
					rt.Rels = filterRels(rt.Rels, "c2")
					if r.Bool() {
						rt.Attrs = append(filterAttrs(rt.Attrs, "c2"), AttrSpec{Name: "c2", Kind: []int{KString, KBytes}[r.Intn(2)]})
					} else {
						rt.Rels = append(rt.Rels, RelSpec{Name: "c2", ToOne: true, ToType: "x"})
					}
				}
			}
			if r.Chance(1, 4) {
				rt.Attrs = append(rt.Attrs, AttrSpec{Name: "extra" + fmt.Sprint(r.Intn(2)), Kind: KInt})
			}
			if !rt.Wrapped && r.Chance(1, 5) {
				// a relationship without a target type: legal in a soft resource (SoftResource.AddRel and type
				// literals do not ask for one), so it is a field the collection has to take over like any other
				if r.Bool() {
					rt.Rels = append(rt.Rels, RelSpec{Name: "nt0", ToOne: true})
				} else {
					rt.Rels = append(rt.Rels, RelSpec{Name: "nt1"})
				}
			}
			rs := genResource(r, &rt, ids[r.Intn(len(ids))])
			if rl := rt.Rel("nt0"); rl != nil {
				rs.ToOne["nt0"] = "target-" + fmt.Sprint(r.Intn(3))
			}
			if rl := rt.Rel("nt1"); rl != nil {
				rs.ToMany["nt1"] = []string{"k2", "k1"}[:r.Range(1, 2)]
			}
			ops = append(ops, c19op{Op: "Add", Res: rs, ResT: &rt, OwnType: r.Chance(1, 5)})
			nAdded++
		case 5, 6:
			ops = append(ops, c19op{Op: "Remove", ID: append(ids, "missing")[r.Intn(len(ids)+1)]})
		case 7:
			name := d.names[r.Intn(5)]
			ops = append(ops, c19op{Op: "AddAttr", Name: name})
		case 8:
			name := d.names[5+r.Intn(3)]
			ops = append(ops, c19op{Op: "AddRel", Name: name})
		case 9, 10, 11:
			if nAdded == 0 {
				continue
			}
			ops = append(ops, c19op{Op: "SetOriginal", Target: r.Intn(nAdded), Name: d.names[r.Intn(len(d.names))]})
		case 12:
			// an element of the collection (the pointer At returns) handed to Add again
			ops = append(ops, c19op{Op: "AddElement", Target: r.Intn(8)})
		default:
			ops = append(ops, c19op{Op: "Read"})
		}
	}
	if c.Index < 2 {
		c.Sample(map[string]any{"dictionary_attrs": d.attrs, "dictionary_rels": d.rels, "history": ops})
	}
	m.run(c, d, ops, r)
}

func filterRels(in []RelSpec, name string) []RelSpec {
	out := []RelSpec{}
	for _, r := range in {
		if r.Name != name {
			out = append(out, r)
		}
	}
	return out
}

func filterAttrs(in []AttrSpec, name string) []AttrSpec {
	out := []AttrSpec{}
	for _, a := range in {
		if a.Name != name {
			out = append(out, a)
		}
	}
	return out
}

// wellTyped reports whether Go value v is storable under definition (attr/rel) of the collection.
func c19store(cur *TypeSpec, name string, srcT *TypeSpec, src *ResSpec, dst *ResSpec) {
	var v any
	if a := srcT.Attr(name); a != nil {
		val := src.wantAttr(*a)
		if ca := cur.Attr(name); ca != nil {
			if ca.Kind == a.Kind && ca.Null == a.Null {
				if val.IsNil() {
					val = zeroVal(a.Kind, a.Null)
				}
				dst.Attrs[name] = val
			}
			return
		}
		// attribute value offered to a relationship slot: only a plain string fits a to-one
		if cr := cur.Rel(name); cr != nil && cr.ToOne && a.Kind == KString && !a.Null {
			dst.ToOne[name] = val.S
		}
		return
	}
	_ = v
	if rl := srcT.Rel(name); rl != nil {
		if cr := cur.Rel(name); cr != nil {
			if cr.ToOne && rl.ToOne {
				dst.ToOne[name] = src.ToOne[name]
			} else if !cr.ToOne && !rl.ToOne {
				dst.ToMany[name] = append([]string{}, src.ToMany[name]...)
			}
			return
		}
		// relationship value offered to an attribute slot: a string fits a non-nullable string attribute, []string fits nothing
		if ca := cur.Attr(name); ca != nil && rl.ToOne && ca.Kind == KString && !ca.Null {
			dst.Attrs[name] = Val{K: KString, S: src.ToOne[name]}
		}
	}
}

func (m c19) run(c *Ctx, d *c19dict, ops []c19op, r *RNG) {
	c.Count("evaluations")
	col := &jsonapi.SoftCollection{}
	var cur TypeSpec
	var elems []c19elem
	var originals []jsonapi.Resource
	var originalT []*TypeSpec
	nAdd, nRemove, lateField := 0, 0, 0
	hist := func(i int) string { return jsonStr(ops[:i+1]) }
	// settle: every stored resource has just been looked at under the collection's current type (a read of all
	// elements, or SetType, which visits them before switching): values of fields the type no longer has are gone
	// for good, so such a field reads its zero value if it comes back later
	settle := func() {
		for i := range elems {
			for f := range elems[i].unknown {
				if cur.Attr(f) == nil && cur.Rel(f) == nil {
					delete(elems[i].unknown, f)
					delete(elems[i].rs.Attrs, f)
					delete(elems[i].rs.ToOne, f)
					delete(elems[i].rs.ToMany, f)
				}
			}
		}
	}
	// blind histories: the stored resources are only read now and then (reading them makes the library tidy them,
	// which would hide what an edit left behind)
	blind := len(ops) > 3 && strSeed(jsonStr(ops[:3]))%3 == 0
	if blind {
		c.Count("blind_histories")
	}

	verify := func(step int) bool {
		ok := true
		if pi := Guard(func() {
			if col.Len() != len(elems) {
				c.Violate("len", "Len()=%d, model has %d after %s", col.Len(), len(elems), hist(step))
				ok = false
				return
			}
			if n := col.GetType().Name; n != cur.Name {
				c.Violate("collection-type-name", "GetType().Name=%q want %q after %s", n, cur.Name, hist(step))
				ok = false
				return
			}
			for i := -2; i <= len(elems)+2; i++ {
				res := col.At(i)
				if i < 0 || i >= len(elems) {
					if res != nil {
						c.Violate("at-out-of-range-not-nil", "At(%d) with Len %d is not nil after %s", i, len(elems), hist(step))
						ok = false
						return
					}
					continue
				}
				if res == nil {
					c.Violate("at-in-range-nil", "At(%d) is nil with Len %d after %s", i, len(elems), hist(step))
					ok = false
					return
				}
				// structure: exactly the collection's current fields
				attrs, rels := res.Attrs(), res.Rels()
				if len(attrs) != len(cur.Attrs) || len(rels) != len(cur.Rels) {
					c.Violate("stored-fields-differ", "At(%d) exposes %d attrs / %d rels, the collection has %d / %d (%v) after %s", i, len(attrs), len(rels), len(cur.Attrs), len(cur.Rels), cur.FieldNames(), hist(step))
					ok = false
					return
				}
				for _, a := range cur.Attrs {
					g, has := attrs[a.Name]
					if !has || g.Type != a.Kind || g.Nullable != a.Null {
						c.Violate("stored-fields-differ", "At(%d).Attrs()[%q]=%+v present=%v, want %s after %s", i, a.Name, g, has, kindName(a.Kind, a.Null), hist(step))
						ok = false
						return
					}
				}
				for _, rl := range cur.Rels {
					g, has := rels[rl.Name]
					if !has || g.ToOne != rl.ToOne {
						c.Violate("stored-fields-differ", "At(%d).Rels()[%q] present=%v toOne=%v, want toOne=%v after %s", i, rl.Name, has, g.ToOne, rl.ToOne, hist(step))
						ok = false
						return
					}
				}
				// values
				e := elems[i]
				known := []string{}
				for _, f := range cur.FieldNames() {
					if !e.unknown[f] {
						known = append(known, f)
					}
				}
				ct := cur
				if cl, msg := compareResource(&ct, e.rs, res, known, true); cl != "" && cl != "type-name" {
					c.Violate("stored-value/"+cl, "At(%d): %s; model %s after %s", i, msg, jsonStr(e.rs), hist(step))
					ok = false
					return
				} else if cl == "type-name" {
					c.Violate("stored-type-name", "At(%d): %s after %s", i, msg, hist(step))
					ok = false
					return
				}
				// unknown-valued fields still must be well-typed
				for _, f := range cur.FieldNames() {
					if e.unknown[f] {
						if a := cur.Attr(f); a != nil {
							if _, good := valFromGo(a.Kind, a.Null, res.Get(f)); !good {
								c.Violate("stored-value-ill-typed", "At(%d).Get(%q) = %s for kind %s after %s", i, f, describeGo(res.Get(f)), kindName(a.Kind, a.Null), hist(step))
								ok = false
								return
							}
						}
					}
				}
			}
			// Resource(id)
			for _, id := range []string{"1", "2", "3", "a", "b", "", "missing"} {
				want := -1
				for i, e := range elems {
					if e.rs.ID == id {
						want = i
						break
					}
				}
				got := col.Resource(id, nil)
				if want < 0 {
					if got != nil {
						c.Violate("resource-found-missing-id", "Resource(%q) is not nil after %s", id, hist(step))
						ok = false
						return
					}
					continue
				}
				if got == nil || got != col.At(want) {
					c.Violate("resource-not-first-match", "Resource(%q) is not the element at index %d after %s", id, want, hist(step))
					ok = false
					return
				}
			}
		}); pi != nil {
			c.Violate("panic@"+pi.Frame+"/"+panicClass(pi.Val)+"/read", "%s after %s", pi, hist(step))
			return false
		}
		return ok
	}

	for step, o := range ops {
		c.Count("op/" + o.Op)
		var err error
		pi := Guard(func() {
			switch o.Op {
			case "SetType":
				nt := d.typeSpec(o.Name, o.Fields)
				typ := buildType(&nt)
				col.SetType(&typ)
			case "Add":
				var res jsonapi.Resource
				if o.OwnType && col.Type != nil {
					// a soft resource created from the collection's own *Type (same pointer), touched before Add
					rt := cur
					rt.Wrapped = false
					rs := genResource(r, &rt, o.Res.ID)
					o.ResT, o.Res = &rt, rs
					ops[step] = o
					res = col.Type.New()
					applySpec(res, &rt, rs)
					c.Count("add/own-type-pointer")
				} else {
					res = buildResource(o.ResT, o.Res)
				}
				originals = append(originals, res)
				originalT = append(originalT, o.ResT)
				col.Add(res)
			case "AddElement":
				if n := col.Len(); n > 0 {
					col.Add(col.At(o.Target % n))
				}
			case "Remove":
				col.Remove(o.ID)
			case "AddAttr":
				a := d.attrs[o.Name]
				err = col.AddAttr(jsonapi.Attr{Name: a.Name, Type: a.Kind, Nullable: a.Null})
			case "AddRel":
				rl := d.rels[o.Name]
				err = col.AddRel(jsonapi.Rel{FromType: cur.Name, FromName: rl.Name, ToOne: rl.ToOne, ToType: rl.ToType})
			case "SetOriginal":
				orig, ot := originals[o.Target], originalT[o.Target]
				orig.Set("id", "changed-later")
				if a := ot.Attr(o.Name); a != nil {
					orig.Set(o.Name, differentVal(zeroVal(a.Kind, a.Null)).Go())
				} else if rl := ot.Rel(o.Name); rl != nil {
					if rl.ToOne {
						orig.Set(o.Name, "changed-later")
					} else {
						orig.Set(o.Name, []string{"changed", "later"})
					}
				}
			}
		})
		if pi != nil {
			c.Violate("panic@"+pi.Frame+"/"+panicClass(pi.Val)+"/"+o.Op, "%s at %s", pi, hist(step))
			return
		}
		// model step
		switch o.Op {
		case "SetType":
			nt := d.typeSpec(o.Name, o.Fields)
			if len(elems) > 0 {
				c.Count("settype/after-add")
			}
			settle()
			for i := range elems {
				for _, f := range cur.FieldNames() {
					if nt.Attr(f) == nil && nt.Rel(f) == nil {
						elems[i].unknown[f] = true
					}
				}
			}
			if len(elems) > 0 && len(nt.FieldNames()) > 0 {
				lateField++
			}
			cur = nt
		case "Add":
			nAdd++
			if o.ResT.Wrapped {
				c.Count("add/wrapped")
			}
			conflict, wider := false, false
			// extend the collection's type with the fields it lacks
			for _, a := range o.ResT.Attrs {
				if cur.Attr(a.Name) == nil && cur.Rel(a.Name) == nil {
					cur.Attrs = append(append([]AttrSpec{}, cur.Attrs...), a)
					wider = true
				} else if ca := cur.Attr(a.Name); ca == nil || ca.Kind != a.Kind || ca.Null != a.Null {
					conflict = true
				}
			}
			for _, rl := range o.ResT.Rels {
				if cur.Attr(rl.Name) == nil && cur.Rel(rl.Name) == nil {
					cur.Rels = append(append([]RelSpec{}, cur.Rels...), rl)
					wider = true
				} else if cr := cur.Rel(rl.Name); cr == nil || cr.ToOne != rl.ToOne {
					conflict = true
				}
			}
			if conflict {
				c.Count("add/conflicting")
			}
			if wider {
				c.Count("add/wider")
				if len(elems) > 0 {
					lateField++
				}
			}
			dst := &ResSpec{Type: cur.Name, ID: o.Res.ID, Attrs: map[string]Val{}, ToOne: map[string]string{}, ToMany: map[string][]string{}}
			// the library walks attributes first, then relationships; a conflicting pair of
			// names cannot both exist in one resource type, so order does not matter here
			for _, a := range o.ResT.Attrs {
				c19store(&cur, a.Name, o.ResT, o.Res, dst)
			}
			for _, rl := range o.ResT.Rels {
				c19store(&cur, rl.Name, o.ResT, o.Res, dst)
			}
			elems = append(elems, c19elem{rs: dst, unknown: map[string]bool{}})
		case "AddElement":
			if n := len(elems); n > 0 {
				e := elems[o.Target%n]
				dst := &ResSpec{Type: cur.Name, ID: e.rs.ID, Attrs: map[string]Val{}, ToOne: map[string]string{}, ToMany: map[string][]string{}}
				for k, v := range e.rs.Attrs {
					dst.Attrs[k] = v
				}
				for k, v := range e.rs.ToOne {
					dst.ToOne[k] = v
				}
				for k, v := range e.rs.ToMany {
					dst.ToMany[k] = append([]string{}, v...)
				}
				unk := map[string]bool{}
				for k, v := range e.unknown {
					unk[k] = v
				}
				elems = append(elems, c19elem{rs: dst, unknown: unk})
				nAdd++
				c.Count("add/own-element")
			}
		case "Remove":
			pos := -1
			for i, e := range elems {
				if e.rs.ID == o.ID {
					pos = i
					break
				}
			}
			switch {
			case pos < 0:
				c.Count("remove/missing")
			case pos == 0:
				c.Count("remove/front")
			case pos == len(elems)-1:
				c.Count("remove/end")
			default:
				c.Count("remove/middle")
			}
			if pos >= 0 {
				nRemove++
				elems = append(append([]c19elem{}, elems[:pos]...), elems[pos+1:]...)
			}
		case "AddAttr":
			a := d.attrs[o.Name]
			exists := cur.Attr(a.Name) != nil
			if err == nil && !exists { // a repeated AddAttr of the same definition may be refused or accepted: nothing observable changes
				cur.Attrs = append(append([]AttrSpec{}, cur.Attrs...), a)
				if len(elems) > 0 {
					lateField++
				}
			}
		case "AddRel":
			rl := d.rels[o.Name]
			exists := cur.Rel(rl.Name) != nil
			if err == nil && !exists {
				cur.Rels = append(append([]RelSpec{}, cur.Rels...), rl)
				if len(elems) > 0 {
					lateField++
				}
			}
		}
		// model names in elems follow the collection's type name
		for i := range elems {
			elems[i].rs.Type = cur.Name
		}
		if blind && step < len(ops)-1 && (step*7+len(ops))%5 != 0 {
			continue
		}
		if !verify(step) {
			return
		}
		settle()
	}
	if nAdd >= 2 && nRemove >= 1 && lateField >= 1 {
		c.Nontrivial(jsonStr(ops))
	}
}

func (m c19) Directed(c *Ctx) {
	d := &c19dict{attrs: map[string]AttrSpec{}, rels: map[string]RelSpec{}}
	for i, k := range []int{KString, KInt, KBytes, KTime, KBool} {
		n := fmt.Sprintf("f%d", i)
		d.attrs[n] = AttrSpec{Name: n, Kind: k, Null: i%2 == 1}
		d.names = append(d.names, n)
	}
	for i := 5; i < 8; i++ {
		n := fmt.Sprintf("f%d", i)
		d.rels[n] = RelSpec{Name: n, ToOne: i == 5, ToType: "x"}
		d.names = append(d.names, n)
	}
	rt := d.typeSpec("col", []string{"f0", "f1", "f5", "f6"})
	mk := func(id string) *ResSpec {
		return &ResSpec{Type: "col", ID: id, Attrs: map[string]Val{"f0": {K: KString, S: "v" + id}, "f1": {K: KInt, Null: true, I: "7"}},
			ToOne: map[string]string{"f5": "o" + id}, ToMany: map[string][]string{"f6": {"m1", "m2"}}}
	}
	c.Name = "witness-settype-after-add"
	m.run(c, d, []c19op{{Op: "SetType", Name: "col", Fields: []string{"f0", "f1", "f5", "f6"}}, {Op: "Add", Res: mk("1"), ResT: &rt},
		{Op: "SetType", Name: "col2", Fields: []string{"f0", "f1", "f2", "f5", "f6", "f7"}}, {Op: "Add", Res: mk("2"), ResT: &rt}}, NewRNG(1))
	c.Name = "remove-middle-and-late-field"
	m.run(c, d, []c19op{{Op: "SetType", Name: "col", Fields: []string{"f0"}}, {Op: "Add", Res: mk("1"), ResT: &rt}, {Op: "Add", Res: mk("2"), ResT: &rt}, {Op: "Add", Res: mk("3"), ResT: &rt},
		{Op: "Remove", ID: "2"}, {Op: "AddAttr", Name: "f3"}, {Op: "AddRel", Name: "f7"}, {Op: "SetOriginal", Target: 0, Name: "f0"}, {Op: "Remove", ID: "1"}, {Op: "Remove", ID: "3"}}, NewRNG(2))
}
