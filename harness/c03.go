package main

import (
	"time"
	"math"
	"bytes"
	"fmt"
	"os/exec"
	"strings"

	"github.com/mfcochauxlaberge/jsonapi"
)

// C03 — marshaled documents are well-formed JSON:API.
type c03 struct{}

func init() { register(c03{}) }

func (c03) ID() string { return "C03" }
func (c03) Size(tier string) Size {
	if tier == "thorough" {
		return Size{Batches: 32, Cases: 8000}
	}
	return Size{Batches: 16, Cases: 1500}
}
func (c03) Rule() string {
	return "case = document as in C02 (every primary-data kind, 0..n included, meta, errors, links, any prefix with/without trailing slash, IDs and soft type names with characters JSON must escape) marshaled once as given and once with its included list rebuilt through a random sequence of Document.Include calls that repeats resources and re-includes primary-data members, with the primary data held in SoftCollection, WrapperCollection, Resources (members of different types may share an ID), a caller-written Collection that declares the type of one member and holds a mixed content, and the collection Range returns; prefixes include percent signs; also documents with data AND errors, and with included but no data. Oracle: independent structure validator over the output bytes (valid JSON, no duplicate members, top-level object with jsonapi and links.self, data xor errors, included only with data, string type/id, links.self == prefix+type+id, relationship links and data shapes, and - when included was built through Include only - no type/ID pair twice across data and included). Thorough additionally re-parses every output with python3's json module. Non-trivial = document with included resources, a collection of >= 2 or a relationship with data; distinct = spec + include sequence hash."
}
func (c03) Assumptions() []string {
	return []string{"the self-link clause is judged on resources with non-empty id and type; raw concatenation and path-escaped type/id are both accepted",
		"url is never nil (MarshalDocument requires it)"}
}
func (c03) Floors(tier string, c map[string]int64) []string {
	var out []string
	for _, k := range []string{"include_calls", "marshal_between_includes", "include_repeat", "include_primary_member", "holder/Resources", "holder/SoftCollection", "holder/WrapperCollection", "holder/Range-result", "kind/null", "kind/resource", "kind/collection", "kind/identifier", "kind/identifiers", "with_errors", "data_and_errors", "exotic_type_name", "prefix/no-trailing-slash", "prefix/trailing-slash"} {
		if c[k] == 0 {
			out = append(out, "never observed: "+k)
		}
	}
	return out
}

// ownCollection is a Collection written outside the library.
type ownCollection struct {
	typ   jsonapi.Type
	items []jsonapi.Resource
}

func (o *ownCollection) GetType() jsonapi.Type     { return o.typ }
func (o *ownCollection) Len() int                  { return len(o.items) }
func (o *ownCollection) At(i int) jsonapi.Resource { return o.items[i] }
func (o *ownCollection) Add(r jsonapi.Resource)    { o.items = append(o.items, r) }

type c03include struct {
	Res          *ResSpec `json:"res"`
	Primary      int      `json:"primary_index"`           // >= 0: pass the primary member itself (-1: a fresh object)
	MarshalAfter bool     `json:"marshal_after,omitempty"` // MarshalDocument is called right after this Include
}

func (m c03) marshalAndValidate(c *Ctx, d *DocSpec, incl []c03include, useRange bool, tag string) {
	c.Count("evaluations")
	desc := func() string {
		return clip(jsonStr(map[string]any{"doc": d, "include_calls": incl, "range_result": useRange}), 3500)
	}
	var out []byte
	var err error
	var b *docBuilt
	viaInclude := incl != nil
	if pi := Guard(func() {
		b = d.build()
		if strings.HasPrefix(tag, "resources-value") {
			if col, ok := b.Doc.Data.(*jsonapi.Resources); ok {
				holder := b.Doc
				holder.Data = *col
				c.Count("documents_with_resources_value")
			}
		}
		if strings.HasPrefix(tag, "own-collection") {
			// a Collection implementation written by the caller: it declares the type of its first member and
			// holds whatever it was given
			if col, ok := b.Doc.Data.(jsonapi.Collection); ok && col.Len() > 0 {
				own := &ownCollection{typ: col.At(0).GetType()}
				if len(tag)%2 == 0 {
					own.typ = col.At(col.Len() - 1).GetType()
				}
				for i := 0; i < col.Len(); i++ {
					own.items = append(own.items, col.At(i))
				}
				b.Doc.Data = own
				c.Count("documents_with_caller_written_collection")
			}
		}
		if useRange {
			if col, ok := b.Doc.Data.(jsonapi.Collection); ok {
				b.Doc.Data = jsonapi.Range(col, nil, nil, []string{}, 1000, 0)
			}
		}
		if viaInclude {
			b.Doc.Included = nil
			for _, ic := range incl {
				var res jsonapi.Resource
				if ic.Primary >= 0 && ic.Primary < len(b.Primary) {
					res = b.Primary[ic.Primary]
					c.Count("include_primary_member")
				} else {
					res = buildResource(d.Schema.Type(ic.Res.Type), ic.Res)
				}
				b.Doc.Include(res)
				c.Count("include_calls")
				if ic.MarshalAfter {
					// a document may be marshaled and then extended: marshaling reorders doc.Included
					_, _ = jsonapi.MarshalDocument(b.Doc, b.URL)
					c.Count("marshal_between_includes")
				}
			}
		}
		if strings.HasPrefix(tag, "unencodable") {
			// a value that encoding/json cannot write (a time beyond year 9999, NaN in resource-level meta): the
			// marshal may fail, but if it reports success the output is still a well-formed document
			for i, res := range append(append([]jsonapi.Resource{}, b.Primary...), b.Included...) {
				if tag == "unencodable-top-level-meta" {
					break
				}
				if (i+len(tag))%2 == 0 {
					if mh, ok := res.(jsonapi.MetaHolder); ok {
						mh.SetMeta(jsonapi.Meta{"nan": math.NaN(), "ok": 1})
					}
				}
				for _, a := range res.Attrs() {
					if a.Type == jsonapi.AttrTypeTime && !a.Nullable {
						res.Set(a.Name, time.Date(12000+i, 1, 2, 3, 4, 5, 0, time.UTC))
					}
				}
			}
			if len(tag)%2 == 0 || len(b.Primary)+len(b.Included) == 0 {
				// ... or in the document's own meta, at depth
				if b.Doc.Meta == nil {
					b.Doc.Meta = jsonapi.Meta{}
				}
				b.Doc.Meta["deep"] = map[string]any{"list": []any{1, math.Inf(1)}}
			}
			c.Count("documents_with_unencodable_values")
		}
		out, err = jsonapi.MarshalDocument(b.Doc, b.URL)
	}); pi != nil {
		c.Violate("panic@"+pi.Frame+"/"+panicClass(pi.Val)+"/"+tag, "%s; %s", pi, desc())
		return
	}
	if err != nil {
		if strings.HasPrefix(tag, "unencodable") {
			c.Count("unencodable_refused")
			return
		}
		if strings.HasPrefix(tag, "resources-value") {
			c.Count("resources_value_refused")
			return
		}
		c.Violate("marshal-error/"+tag, "%v; %s", err, desc())
		return
	}
	identKind := d.Kind == "identifier" || d.Kind == "identifiers"
	cl, msg, root := validateStructure(out, d.Prefix, identKind, viaInclude)
	if cl != "" {
		h := d.Holder
		if useRange {
			h = "Range-result"
		}
		if cl != "duplicate-resource" {
			h = d.Kind
		}
		c.Violate(cl+"/"+h, "%s; output %s; %s", msg, clip(string(out), 1200), desc())
		return
	}
	// a payload handed to the caller stays what it was when later documents are marshaled
	if c03kept != nil && digest(c03kept) != c03keptDigest {
		c.Violate("earlier-payload-changed", "the bytes returned by an earlier MarshalDocument call changed when this document was marshaled; they now read %s", clip(string(c03kept), 300))
		c03kept = nil
		return
	}
	c03kept, c03keptDigest = out, digest(out)
	c.Count("payloads_kept_across_the_next_marshal")
	// a document read back with UnmarshalDocument and extended through Include with resources it already has
	if !viaInclude && !strings.HasPrefix(tag, "unencodable") && len(d.Included) > 0 && (d.Kind == "resource" || d.Kind == "collection") && len(d.Errors) == 0 {
		var out2 []byte
		var err2 error
		ok := false
		if pi := Guard(func() {
			doc2, uerr := jsonapi.UnmarshalDocument(out, b.Schema)
			if uerr != nil {
				return // C02 judges the round trip
			}
			for _, rs := range d.Included {
				doc2.Include(buildResource(d.Schema.Type(rs.Type), rs))
			}
			if len(d.Primary) > 0 {
				doc2.Include(buildResource(d.Schema.Type(d.Primary[0].Type), d.Primary[0]))
			}
			doc2.PrePath = d.Prefix
			out2, err2 = jsonapi.MarshalDocument(doc2, b.URL)
			ok = true
		}); pi != nil {
			c.Violate("panic@"+pi.Frame+"/"+panicClass(pi.Val)+"/include-after-unmarshal", "%s; %s", pi, desc())
			return
		}
		if ok && err2 == nil {
			c.Count("include_after_unmarshal")
			if cl, msg, _ := validateStructure(out2, d.Prefix, false, true); cl != "" {
				c.Violate(cl+"/include-after-unmarshal", "%s; output %s; %s", msg, clip(string(out2), 1200), desc())
				return
			}
		}
	}
	if len(d.Errors) > 0 && !root.Has("errors") {
		c.Violate("errors-dropped", "document carries %d errors but the output has no errors member: %s", len(d.Errors), clip(string(out), 600))
		return
	}
	if c.Thorough() {
		c03outs = append(c03outs, out)
	}
	// non-triviality
	nt := d.nontrivialShape() || len(incl) > 0
	for _, ro := range resourceObjects(root, identKind) {
		if rels := ro.V.Get("relationships"); rels != nil {
			for _, rv := range rels.Vals {
				if rv.Has("data") {
					nt = true
				}
			}
		}
	}
	if nt {
		c.Nontrivial(jsonStr(d) + jsonStr(incl) + fmt.Sprint(useRange))
	}
}

// c03kept is the payload the previous MarshalDocument call returned (the slice itself, not a copy).
var c03kept []byte
var c03keptDigest string

// c03outs collects marshaled documents for the offline python re-parse (thorough).
var c03outs [][]byte

// Finish re-parses every recorded output with python3's json module, a second,
// unrelated parser, as an offline check over the recorded log.
func (m c03) Finish(c *Ctx) {
	if len(c03outs) == 0 {
		return
	}
	script := `import sys, json
n = 0
for line in sys.stdin.buffer:
    try:
        v = json.loads(line.decode("utf-8"))
        assert isinstance(v, dict)
    except Exception as e:
        print("BAD", n, repr(e))
        sys.exit(0)
    n += 1
print("OK", n)
`
	cmd := exec.Command("python3", "-c", script)
	cmd.Stdin = bytes.NewReader(append(bytes.Join(c03outs, []byte("\n")), '\n'))
	outb, err := cmd.Output()
	res := strings.TrimSpace(string(outb))
	switch {
	case err != nil:
		c.Count("python_reparse_unavailable")
	case strings.HasPrefix(res, "OK"):
		c.Add("python_reparsed_outputs", len(c03outs))
	default:
		var idx int
		fmt.Sscanf(res, "BAD %d", &idx)
		bad := ""
		if idx < len(c03outs) {
			bad = clip(string(c03outs[idx]), 800)
		}
		c.Violate("python-json-rejects-output", "%s: %s", res, bad)
	}
}

func (m c03) Case(c *Ctx, r *RNG) {

	d := genDoc(r, docOpts{MaxPrimary: c.Pick(6, 20), MaxIncluded: c.Pick(6, 20), Errors: true, UniqueIDs: true})
	c.Count("kind/" + d.Kind)
	if len(d.Errors) > 0 {
		c.Count("with_errors")
		if d.Kind != "null" {
			c.Count("data_and_errors")
		}
	}
	if strings.HasSuffix(d.Prefix, "/") {
		c.Count("prefix/trailing-slash")
	} else {
		c.Count("prefix/no-trailing-slash")
	}
	// exotic soft type names
	if r.Chance(1, 6) && d.Holder != "WrapperCollection" {
		for i := range d.Schema.Types {
			t := &d.Schema.Types[i]
			if t.Wrapped {
				continue
			}
			old := t.Name
			nn := old + r.Pick([]string{"\"q", "\\b", "<t>", " sp", "é", "\n"})
			renameType(d, old, nn)
			c.Count("exotic_type_name")
			break
		}
	}
	// to-many lists that name the same ID more than once (a list, not a set, is what a resource holds)
	if r.Chance(1, 3) {
		for _, rs := range d.allResources() {
			for k, v := range rs.ToMany {
				if len(v) >= 1 && r.Bool() {
					rs.ToMany[k] = append(append([]string{}, v...), v[r.Intn(len(v))])
					if r.Chance(1, 3) {
						rs.ToMany[k] = append(rs.ToMany[k], v[0], v[0])
					}
					c.Count("to_many_with_repeated_id")
				}
			}
		}
	}
	// a mixed-type collection in which resources of different types have the same ID (users/1 next to articles/1)
	shared := []int{}
	if d.Kind == "collection" && d.Holder == "Resources" && len(d.Primary) >= 2 && r.Chance(1, 2) {
		for tries := 0; tries < 8 && len(shared) == 0; tries++ {
			i, j := r.Intn(len(d.Primary)), r.Intn(len(d.Primary))
			if d.Primary[i].Type == d.Primary[j].Type {
				continue
			}
			clash := false
			for _, rs := range d.allResources() {
				if rs.Type == d.Primary[j].Type && rs.ID == d.Primary[i].ID {
					clash = true
				}
			}
			if !clash {
				d.Primary[j].ID = d.Primary[i].ID
				shared = []int{i, j}
				c.Count("primary_members_sharing_an_id_across_types")
			}
		}
	}
	if c.Index < 2 {
		c.Sample(d)
	}
	m.marshalAndValidate(c, d, nil, false, "as-given")
	if c.Index%8 == 3 && (d.Kind == "resource" || d.Kind == "collection") {
		m.marshalAndValidate(c, d, nil, false, "unencodable-values")
	}
	if c.Index%8 == 5 {
		m.marshalAndValidate(c, d, nil, false, "unencodable-top-level-meta")
	}

	// the same document with included rebuilt through Include
	if d.Kind == "identifier" || d.Kind == "identifiers" {
		return
	}
	var incl []c03include
	pool := append([]*ResSpec{}, d.Included...)
	n := r.Range(1, c.Pick(8, 20))
	for i := 0; i < n; i++ {
		switch {
		case len(d.Primary) > 0 && r.Chance(1, 3):
			pi := r.Intn(len(d.Primary))
			if r.Bool() {
				incl = append(incl, c03include{Res: d.Primary[pi], Primary: pi})
			} else {
				incl = append(incl, c03include{Res: d.Primary[pi], Primary: -1}) // equal content, fresh object
				c.Count("include_primary_member")
			}
		case len(incl) > 0 && r.Chance(1, 3):
			incl = append(incl, incl[r.Intn(len(incl))])
			c.Count("include_repeat")
		case len(pool) > 0 && r.Bool():
			incl = append(incl, c03include{Res: pool[r.Intn(len(pool))], Primary: -1})
		default:
			t := &d.Schema.Types[r.Intn(len(d.Schema.Types))]
			id := safeIDPool[r.Intn(5)]
			if r.Chance(1, 4) {
				id = genID(r)
			}
			incl = append(incl, c03include{Res: genResource(r, t, id), Primary: -1})
		}
	}
	for _, pi := range shared {
		// both of the primary members that share an ID are included again, as the member itself or as an equal object
		at := r.Intn(len(incl) + 1)
		ic := c03include{Res: d.Primary[pi], Primary: pi}
		if r.Chance(1, 3) {
			ic.Primary = -1
		}
		incl = append(incl[:at], append([]c03include{ic}, incl[at:]...)...)
		c.Count("include_primary_member")
	}
	for i := range incl {
		if r.Chance(1, 6) {
			incl[i].MarshalAfter = true
		}
	}
	useRange := d.Kind == "collection" && r.Chance(1, 3)
	if d.Kind == "collection" {
		if useRange {
			c.Count("holder/Range-result")
		} else {
			c.Count("holder/" + d.Holder)
		}
	}
	m.marshalAndValidate(c, d, incl, useRange, "via-include")
	if d.Kind == "collection" && d.Holder == "Resources" && !useRange {
		// the collection given as a Resources VALUE (not a pointer): refused today; if a library accepts it, the
		// document it writes is judged like any other
		m.marshalAndValidate(c, d, incl, false, "resources-value/via-include")
		m.marshalAndValidate(c, d, incl, false, "own-collection/via-include")
		m.marshalAndValidate(c, d, incl, false, "own-collection/via-include/")
	}
}

func renameType(d *DocSpec, old, nn string) {
	for i := range d.Schema.Types {
		t := &d.Schema.Types[i]
		if t.Name == old {
			t.Name = nn
		}
		for j := range t.Rels {
			if t.Rels[j].ToType == old {
				t.Rels[j].ToType = nn
			}
		}
	}
	for _, rs := range d.allResources() {
		if rs.Type == old {
			rs.Type = nn
		}
	}
	for i := range d.Idents {
		if d.Idents[i][0] == old {
			d.Idents[i][0] = nn
		}
	}
	if d.ColType == old {
		d.ColType = nn
	}
	if v, ok := d.Fields[old]; ok {
		d.Fields[nn] = v
		delete(d.Fields, old)
	}
	if v, ok := d.RelData[old]; ok {
		d.RelData[nn] = v
		delete(d.RelData, old)
	}
	for i := range d.Frags {
		if d.Frags[i] == old {
			d.Frags[i] = nn
		}
	}
}

func (m c03) Directed(c *Ctx) {
	t := TypeSpec{Name: "t", Attrs: []AttrSpec{{Name: "a", Kind: KString}}, Rels: []RelSpec{{Name: "r", ToType: "t"}}}
	s := &SchemaSpec{Types: []TypeSpec{t}}
	r1 := &ResSpec{Type: "t", ID: "1", ToMany: map[string][]string{"r": {"2"}}}
	r2 := &ResSpec{Type: "t", ID: "2"}
	for _, holder := range []string{"Resources", "SoftCollection", "WrapperCollection"} {
		for _, useRange := range []bool{false, true} {
			c.Name = fmt.Sprintf("witness-include-primary-member-%s-range=%v", holder, useRange)
			d := &DocSpec{Schema: s, Kind: "collection", Holder: holder, ColType: "t", Primary: []*ResSpec{r1, r2}, Prefix: "/", Fields: map[string][]string{"t": {"a", "r"}}, RelData: map[string][]string{"t": {"r"}}, Frags: []string{"t"}}
			m.marshalAndValidate(c, d, []c03include{{Res: r2, Primary: -1}, {Res: r1, Primary: 0}, {Res: &ResSpec{Type: "t", ID: "3"}, Primary: -1}, {Res: &ResSpec{Type: "t", ID: "3"}, Primary: -1}}, useRange, "via-include")
		}
	}
	c.Name = "data-and-errors"
	d := &DocSpec{Schema: s, Kind: "resource", Primary: []*ResSpec{r1}, Included: []*ResSpec{r2}, Errors: []ErrSpec{{Title: "boom"}}, Prefix: "https://example.org", Fields: map[string][]string{"t": {"a"}}, RelData: map[string][]string{}, Frags: []string{"t", "1"}}
	m.marshalAndValidate(c, d, nil, false, "as-given")
}
