package main

import (
	"fmt"
	"sort"
	"strings"

	"github.com/mfcochauxlaberge/jsonapi"
)

// Two DIFFERENT struct types with the SAME Go name ("main.pairRec": each is local to its own function, like Account
// in v1/models and v2/models), the same json names, another field order and one field of another kind. Nothing in
// the library may identify a struct type by its name: whatever it remembers about one must not be used for the other.

func pairA() any {
	type pairRec struct {
		ID    string   `json:"id" api:"pair-a"`
		Name  string   `json:"name" api:"attr"`
		Email string   `json:"email" api:"attr"`
		Age   int      `json:"age" api:"attr"`
		Tags  []string `json:"tags" api:"rel,pair-a"`
	}
	return &pairRec{}
}

func pairB() any {
	type pairRec struct {
		ID    string   `json:"id" api:"pair-b"`
		Age   *int64   `json:"age" api:"attr"`
		Email string   `json:"email" api:"attr"`
		Tags  []string `json:"tags" api:"rel,pair-b"`
		Name  string   `json:"name" api:"attr"`
		Owner string   `json:"owner" api:"rel,pair-b"`
	}
	return &pairRec{}
}

// sameNameBattery uses type A through every entry point first and then type B, and reports what goes wrong with B,
// keyed by the property the observation belongs to.
func sameNameBattery() (problems map[string]string) {
	problems = map[string]string{}
	note := func(prop, format string, args ...any) {
		if _, dup := problems[prop]; !dup {
			problems[prop] = fmt.Sprintf(format, args...)
		}
	}
	defer func() {
		if rec := recover(); rec != nil {
			for _, p := range []string{"C05", "C06", "C10", "C17", "C18", "C20"} {
				note(p, "panic while using the second of two same-named struct types: %v", rec)
			}
		}
	}()
	// warm every path with A
	wa := jsonapi.Wrap(pairA())
	wa.Set("id", "a1")
	wa.Set("name", "Ann")
	wa.Set("email", "ann@example.org")
	wa.Set("age", 41)
	_ = wa.Get("name")
	_ = wa.Copy()
	_ = wa.New()
	ta, _ := jsonapi.BuildType(pairA())
	_ = ta.New()
	sa := &jsonapi.Schema{}
	_ = sa.AddType(ta)
	_, _ = jsonapi.UnmarshalResource([]byte(`{"type":"pair-a","id":"a2","attributes":{"name":"x","email":"y","age":3}}`), sa)
	_ = jsonapi.MarshalResource(wa, "/", []string{"name", "email", "age", "tags"}, map[string][]string{"pair-a": {"tags"}})
	_ = (&jsonapi.Filter{Field: "name", Op: "=", Val: "Ann"}).IsAllowed(wa)

	// now B
	want := map[string]string{"age": "*int64", "email": "string", "name": "string"}
	tb, err := jsonapi.BuildType(pairB())
	if err != nil {
		note("C20", "BuildType of the second type fails: %v", err)
		return
	}
	wb := jsonapi.Wrap(pairB())
	names := func(m map[string]jsonapi.Attr) string {
		var out []string
		for n, a := range m {
			out = append(out, n+":"+jsonapi.GetAttrTypeString(a.Type, a.Nullable))
		}
		sort.Strings(out)
		return strings.Join(out, ",")
	}
	wantNames := "age:*int64,email:string,name:string"
	if tb.Name != "pair-b" || names(tb.Attrs) != wantNames || len(tb.Rels) != 2 {
		note("C20", "BuildType of the second same-named struct gives type %q attrs [%s] %d rels, its tags say pair-b [%s] 2 rels", tb.Name, names(tb.Attrs), len(tb.Rels), wantNames)
	}
	if wb.GetType().Name != "pair-b" || names(wb.Attrs()) != wantNames || len(wb.Rels()) != 2 {
		note("C20", "Wrap of the second same-named struct reports type %q attrs [%s] %d rels", wb.GetType().Name, names(wb.Attrs()), len(wb.Rels()))
	}
	// C17: read back
	age := int64(7)
	wb.Set("id", "b1")
	wb.Set("name", "Bob")
	wb.Set("email", "bob@example.org")
	wb.Set("age", &age)
	wb.Set("owner", "b9")
	wb.Set("tags", []string{"t2", "t1"})
	if g, _ := wb.Get("name").(string); g != "Bob" {
		note("C17", "second same-named struct: Set(name, Bob) then Get(name) = %v", wb.Get("name"))
	}
	if g, _ := wb.Get("email").(string); g != "bob@example.org" {
		note("C17", "second same-named struct: Get(email) = %v", wb.Get("email"))
	}
	if g, _ := wb.Get("age").(*int64); g == nil || *g != 7 {
		note("C17", "second same-named struct: Get(age) = %v", describeGo(wb.Get("age")))
	}
	// C18: copy / new
	cp := wb.Copy()
	if cp.GetType().Name != "pair-b" || names(cp.Attrs()) != wantNames || cp.Get("name") != "Bob" || cp.Get("id") != "b1" {
		note("C18", "Copy of the second same-named struct: type %q attrs [%s] name %v id %v", cp.GetType().Name, names(cp.Attrs()), cp.Get("name"), cp.Get("id"))
	}
	if nw := wb.New(); nw.GetType().Name != "pair-b" || names(nw.Attrs()) != wantNames {
		note("C18", "New of the second same-named struct: type %q attrs [%s]", nw.GetType().Name, names(nw.Attrs()))
	}
	// C10: filter verdicts as on a soft resource with the same values
	for _, f := range []*jsonapi.Filter{{Field: "name", Op: "=", Val: "Bob"}, {Field: "email", Op: "<", Val: "c"}, {Field: "name", Op: "!=", Val: "bob@example.org"}, {Field: "owner", Op: "=", Val: "b9"}} {
		if !f.IsAllowed(wb) {
			note("C10", "filter %s %s %v is false on the second same-named struct (true on a soft resource with the same values)", f.Field, f.Op, f.Val)
		}
	}
	// C05 / C06: unmarshal against a schema that knows only B
	sb := &jsonapi.Schema{}
	_ = sb.AddType(tb)
	body := `{"type":"pair-b","id":"b2","attributes":{"name":"Bea","email":"bea@example.org","age":9},"relationships":{"owner":{"data":{"type":"pair-b","id":"b1"}},"tags":{"data":[{"type":"pair-b","id":"x"}]}}}`
	for _, entry := range []string{"UnmarshalResource", "UnmarshalDocument"} {
		var res jsonapi.Resource
		var uerr error
		if entry == "UnmarshalResource" {
			res, uerr = jsonapi.UnmarshalResource([]byte(body), sb)
		} else {
			var doc *jsonapi.Document
			doc, uerr = jsonapi.UnmarshalDocument([]byte(`{"data":`+body+`}`), sb)
			if uerr == nil {
				res, _ = doc.Data.(jsonapi.Resource)
			}
		}
		if uerr != nil {
			note("C06", "%s refuses a valid payload for the second same-named struct: %v", entry, uerr)
			continue
		}
		if res == nil || res.GetType().Name != "pair-b" {
			note("C05", "%s returns a resource of type %q for a pair-b payload (schema has only pair-b)", entry, res.GetType().Name)
			continue
		}
		for n, gt := range want {
			if got := fmt.Sprintf("%T", res.Get(n)); got != gt {
				note("C05", "%s: attribute %q holds a %s, the schema declares %s", entry, n, got, gt)
			}
		}
		if g, _ := res.Get("name").(string); g != "Bea" {
			note("C06", "%s: name holds %v, payload says Bea", entry, res.Get("name"))
		}
		if g, _ := res.Get("email").(string); g != "bea@example.org" {
			note("C06", "%s: email holds %v, payload says bea@example.org", entry, res.Get("email"))
		}
		if g, _ := res.Get("age").(*int64); g == nil || *g != 9 {
			note("C06", "%s: age holds %s, payload says 9", entry, describeGo(res.Get("age")))
		}
		if g, _ := res.Get("owner").(string); g != "b1" {
			note("C06", "%s: owner holds %v, payload says b1", entry, res.Get("owner"))
		}
	}
	return problems
}

// sameNameCheck runs the battery for one property.
func sameNameCheck(c *Ctx, prop string) {
	c.Name = "same-named-struct-types"
	problems := sameNameBattery()
	c.Count("same_named_struct_batteries")
	if msg, bad := problems[prop]; bad {
		c.Violate("same-named-struct-types", "%s", msg)
	}
}
