package main

import (
	"strings"
	"fmt"

	"github.com/mfcochauxlaberge/jsonapi"
)

// C02 — documents survive a marshal/unmarshal round trip.
type c02 struct{}

func init() { register(c02{}) }

func (c02) ID() string { return "C02" }
func (c02) Size(tier string) Size {
	if tier == "thorough" {
		return Size{Batches: 32, Cases: 6500}
	}
	return Size{Batches: 16, Cases: 1500}
}
func (c02) Rule() string {
	return "case = document spec over a random schema: primary data nil / one resource / Resources (mixed types) / SoftCollection / WrapperCollection of 0..n / Identifier / Identifiers, 0..n included resources of any type, meta trees from a JSON value generator, 0..4 error objects with any subset of the eight members, any prefix, any field selection and relationship-data request; MarshalDocument then UnmarshalDocument against the same schema. Oracle compares the returned document with the SPEC: kind of primary data, (type,id) sequence, selected field values (C01's value semantics), included as a multiset of (type,id) with equal selected values, meta JSON-equal by exact rational value (empty == absent), errors member by member in order and Data == nil. Non-trivial = >= 2 resources overall, or an error with >= 2 members, or meta of depth >= 2; distinct = spec hash."
}
func (c02) Assumptions() []string {
	return []string{"an identifier and a field-less resource object are the same bytes on the wire, so an Identifier legitimately comes back as a resource: 'same kind' means null / single / list with the same type/ID pairs; identifier types are drawn from the schema",
		"meta / source numbers are generated float64-exact (a map[string]any cannot carry more after decoding)",
		"relationship values are compared only where the relationship is selected AND its data is requested (otherwise the wire carries no linkage)"}
}
func (c02) Floors(tier string, c map[string]int64) []string {
	var out []string
	for _, k := range []string{"kind/null", "kind/resource", "kind/collection", "kind/identifier", "kind/identifiers", "kind/errors", "with_included", "with_meta", "holder/Resources", "holder/SoftCollection", "holder/WrapperCollection", "empty_collection"} {
		if c[k] == 0 {
			out = append(out, "never observed: "+k)
		}
	}
	return out
}

// selectedFields lists the fields of t whose values travel on the wire under d.
func (d *DocSpec) selectedFields(t *TypeSpec) []string {
	out := []string{}
	sel, ok := d.Fields[t.Name]
	if !ok {
		return out
	}
	for _, a := range t.AttrNames() {
		if contains(sel, a) {
			out = append(out, a)
		}
	}
	for _, rn := range t.RelNames() {
		if contains(sel, rn) && contains(d.RelData[t.Name], rn) {
			out = append(out, rn)
		}
	}
	return out
}

func jsonEqualMaps(a, b any) bool {
	ca, cb := canonOfGo(a), canonOfGo(b)
	if ca == cb {
		return true
	}
	empty := func(s string) bool { return s == "null" || s == "{}" }
	return empty(ca) && empty(cb)
}

func metaDepth(v any) int {
	switch x := v.(type) {
	case map[string]any:
		d := 0
		for _, e := range x {
			if k := metaDepth(e); k > d {
				d = k
			}
		}
		return d + 1
	case []any:
		d := 0
		for _, e := range x {
			if k := metaDepth(e); k > d {
				d = k
			}
		}
		return d + 1
	}
	return 0
}

func (m c02) run(c *Ctx, d *DocSpec) {
	c.Count("evaluations")
	desc := func() string { return clip(jsonStr(d), 3000) }
	var out []byte
	var err error
	var doc2 *jsonapi.Document
	stage := "marshal"
	if pi := Guard(func() {
		b := d.build()
		out, err = jsonapi.MarshalDocument(b.Doc, b.URL)
		if err != nil {
			return
		}
		stage = "unmarshal"
		doc2, err = jsonapi.UnmarshalDocument(out, b.Schema)
	}); pi != nil {
		c.Violate("panic@"+pi.Frame+"/"+panicClass(pi.Val)+"/"+stage, "%s; %s", pi, desc())
		return
	}
	if err == nil && out != nil && !keptPayloadCheck(c, "MarshalDocument", out) {
		return
	}
	if err != nil {
		c.Violate("roundtrip-error/"+stage+"/"+d.Kind, "%v; bytes %s; %s", err, clip(string(out), 800), desc())
		return
	}
	bytesStr := func() string { return clip(string(out), 1200) }
	kind := d.Kind
	if len(d.Errors) > 0 {
		kind = "errors"
	}
	c.Count("kind/" + kind)
	if d.Holder != "" && kind == "collection" {
		c.Count("holder/" + d.Holder)
		if len(d.Primary) == 0 {
			c.Count("empty_collection")
		}
	}
	checkRes := func(where string, rs *ResSpec, got jsonapi.Resource) bool {
		t := d.Schema.Type(rs.Type)
		if cl, msg := compareResource(t, rs, got, d.selectedFields(t), false); cl != "" {
			c.Violate("value-changed/"+where+"/"+cl, "%s: %s; selection %v relData %v; bytes %s; %s", where, msg, d.Fields[t.Name], d.RelData[t.Name], bytesStr(), desc())
			return false
		}
		return true
	}
	switch kind {
	case "errors":
		if doc2.Data != nil {
			c.Violate("errors-with-data", "error document came back with data %T; bytes %s", doc2.Data, bytesStr())
			return
		}
		if len(doc2.Errors) != len(d.Errors) {
			c.Violate("errors-count", "%d errors came back, %d were sent; bytes %s; %s", len(doc2.Errors), len(d.Errors), bytesStr(), desc())
			return
		}
		for i, e := range d.Errors {
			g := doc2.Errors[i]
			var diff string
			switch {
			case g.ID != e.ID:
				diff = "id"
			case g.Code != e.Code:
				diff = "code"
			case g.Status != e.Status:
				diff = "status"
			case g.Title != e.Title:
				diff = "title"
			case g.Detail != e.Detail:
				diff = "detail"
			case !jsonEqualMaps(g.Links, e.Links):
				diff = "links"
			case !jsonEqualMaps(g.Source, e.Source):
				diff = "source"
			case !jsonEqualMaps(map[string]any(g.Meta), e.Meta):
				diff = "meta"
			}
			if diff != "" {
				c.Violate("error-member/"+diff, "error #%d: member %s differs: got %s, sent %s; bytes %s", i, diff, jsonStr(g), jsonStr(e), bytesStr())
				return
			}
		}
	case "null":
		if doc2.Data != nil {
			c.Violate("kind/null-became-data", "nil primary data came back as %T; bytes %s", doc2.Data, bytesStr())
			return
		}
	case "resource", "identifier":
		got, ok := doc2.Data.(jsonapi.Resource)
		if !ok {
			c.Violate("kind/single-not-resource", "single primary data came back as %T; bytes %s; %s", doc2.Data, bytesStr(), desc())
			return
		}
		if kind == "resource" {
			if !checkRes("primary", d.Primary[0], got) {
				return
			}
		} else {
			gid, _ := got.Get("id").(string)
			if got.GetType().Name != d.Idents[0][0] || gid != d.Idents[0][1] {
				c.Violate("identifier-changed", "identifier %v came back as %s/%s; bytes %s", d.Idents[0], got.GetType().Name, gid, bytesStr())
				return
			}
		}
	case "collection", "identifiers":
		col, ok := doc2.Data.(jsonapi.Collection)
		if !ok {
			c.Violate("kind/list-not-collection", "list primary data came back as %T; bytes %s; %s", doc2.Data, bytesStr(), desc())
			return
		}
		n := len(d.Primary)
		if kind == "identifiers" {
			n = len(d.Idents)
		}
		if col.Len() != n {
			c.Violate("collection-length", "%d members came back, %d were sent; bytes %s; %s", col.Len(), n, bytesStr(), desc())
			return
		}
		for i := 0; i < n; i++ {
			got := col.At(i)
			if kind == "collection" {
				if !checkRes(fmt.Sprintf("member"), d.Primary[i], got) {
					return
				}
				continue
			}
			gid, _ := got.Get("id").(string)
			if got.GetType().Name != d.Idents[i][0] || gid != d.Idents[i][1] {
				c.Violate("identifier-changed", "identifier #%d %v came back as %s/%s; bytes %s", i, d.Idents[i], got.GetType().Name, gid, bytesStr())
				return
			}
		}
	}
	if kind != "errors" {
		// included: same multiset of (type,id) with equal selected values
		if len(doc2.Included) != len(d.Included) {
			c.Violate("included-count", "%d included came back, %d were sent; bytes %s; %s", len(doc2.Included), len(d.Included), bytesStr(), desc())
			return
		}
		used := make([]bool, len(doc2.Included))
		for _, rs := range d.Included {
			t := d.Schema.Type(rs.Type)
			found, sawKey := false, false
			var lastMsg string
			for j, got := range doc2.Included {
				if used[j] {
					continue
				}
				gid, _ := got.Get("id").(string)
				if got.GetType().Name != rs.Type || gid != rs.ID {
					continue
				}
				sawKey = true
				if cl, msg := compareResource(t, rs, got, d.selectedFields(t), false); cl == "" {
					used[j], found = true, true
					break
				} else {
					lastMsg = cl + ": " + msg
				}
			}
			if !found {
				if !sawKey {
					c.Violate("included-missing", "included %s/%q did not come back; bytes %s; %s", rs.Type, rs.ID, bytesStr(), desc())
				} else {
					c.Violate("value-changed/included", "included %s/%q came back with other values (%s); bytes %s; %s", rs.Type, rs.ID, lastMsg, bytesStr(), desc())
				}
				return
			}
		}
		if len(d.Included) > 0 {
			c.Count("with_included")
		}
	}
	if !jsonEqualMaps(map[string]any(doc2.Meta), d.Meta) {
		c.Violate("meta-changed", "meta came back as %s, sent %s; bytes %s", jsonStr(doc2.Meta), jsonStr(d.Meta), bytesStr())
		return
	}
	if len(d.Meta) > 0 {
		c.Count("with_meta")
	}
	c.Count("roundtrip_ok")
	nt := len(d.allResources())+len(d.Idents) >= 2 || metaDepth(d.Meta) >= 2
	for _, e := range d.Errors {
		if e.members() >= 2 {
			nt = true
		}
	}
	if nt {
		c.Nontrivial(jsonStr(d))
	}
}

// libraryErrors: error objects built by the library's own constructors from hostile arguments (what a server
// sends back after refusing a request) survive the round trip member for member.
func (m c02) libraryErrors(c *Ctx, r *RNG) {
	long := []string{strings.Repeat("é", 40), strings.Repeat("日本語", 25), strings.Repeat("a", 63) + "😀😀", strings.Repeat("x", 64) + "é", "\"q\" <&> \\ \u0000 \n", strings.Repeat("ab", 500), ""}
	pick := func() string {
		if r.Bool() {
			return r.Pick(long)
		}
		return genString(r)
	}
	errs := []jsonapi.Error{
		jsonapi.NewErrInvalidFieldValueInBody(pick(), pick(), pick()), jsonapi.NewErrMalformedFilterParameter(pick()), jsonapi.NewErrBadRequest(pick(), pick()),
		jsonapi.NewErrInvalidPageNumberParameter(pick()), jsonapi.NewErrInvalidPageSizeParameter(pick()), jsonapi.NewErrDuplicateFieldInFieldsParameter(pick(), pick()),
		jsonapi.NewErrUnknownFieldInBody(pick(), pick()), jsonapi.NewErrUnknownFieldInURL(pick()), jsonapi.NewErrUnknownParameter(pick()),
		jsonapi.NewErrUnknownRelationshipInPath(pick(), pick(), pick()), jsonapi.NewErrUnknownTypeInURL(pick()), jsonapi.NewErrUnknownFieldInFilterParameter(pick()),
		jsonapi.NewErrUnknownOperatorInFilterParameter(pick()), jsonapi.NewErrInvalidValueInFilterParameter(pick(), pick()), jsonapi.NewErrUnknownCollationInFilterParameter(pick()),
		jsonapi.NewErrUnknownFilterParameterLabel(pick()), jsonapi.NewErrMissingDataMember(), jsonapi.NewErrNotFound(),
	}
	errs = errs[r.Intn(6):]
	show := func(e jsonapi.Error) string {
		var sb strings.Builder
		fmt.Fprintf(&sb, "id=%q code=%q status=%q title=%q detail=%q", e.ID, e.Code, e.Status, e.Title, e.Detail)
		for _, k := range sortedKeys(e.Links) {
			fmt.Fprintf(&sb, " links.%s=%q", k, fmt.Sprint(e.Links[k]))
		}
		for _, k := range sortedKeys(e.Source) {
			fmt.Fprintf(&sb, " source.%s=%q", k, fmt.Sprint(e.Source[k]))
		}
		for _, k := range sortedKeys(e.Meta) {
			fmt.Fprintf(&sb, " meta.%s=%q", k, fmt.Sprint(e.Meta[k]))
		}
		return sb.String()
	}
	var out []byte
	var doc2 *jsonapi.Document
	var err error
	if pi := Guard(func() {
		schema := &jsonapi.Schema{}
		_ = schema.AddType(jsonapi.Type{Name: "t"})
		u, _ := jsonapi.NewURLFromRaw(schema, "/t")
		out, err = jsonapi.MarshalDocument(&jsonapi.Document{Errors: errs}, u)
		if err == nil {
			doc2, err = jsonapi.UnmarshalDocument(out, schema)
		}
	}); pi != nil {
		c.Violate("panic@"+pi.Frame+"/"+panicClass(pi.Val)+"/library-errors", "%s", pi)
		return
	}
	c.Count("library_built_error_documents")
	if err != nil {
		c.Violate("roundtrip-error/library-errors", "%v; bytes %s", err, clip(string(out), 600))
		return
	}
	if len(doc2.Errors) != len(errs) {
		c.Violate("errors-count/library-errors", "%d errors came back, %d were sent", len(doc2.Errors), len(errs))
		return
	}
	for i := range errs {
		if a, b := show(errs[i]), show(doc2.Errors[i]); a != b {
			c.Violate("error-member/library-built", "error %d built by the library's constructor came back different:\n sent %s\n got  %s", i, clip(a, 700), clip(b, 700))
			return
		}
	}
}

func (m c02) Case(c *Ctx, r *RNG) {
	if c.Index%4 == 0 {
		m.libraryErrors(c, r)
	}
	d := genDoc(r, docOpts{MaxPrimary: c.Pick(6, 40), MaxIncluded: c.Pick(6, 40), Errors: true})
	if c.Index < 2 {
		c.Sample(d)
	}
	m.run(c, d)
}

func (m c02) Directed(c *Ctx) {
	tagOptCheck(c, "C02")
	t := TypeSpec{Name: "t", Attrs: []AttrSpec{{Name: "a", Kind: KString}, {Name: "n", Kind: KUint64, Null: true}}, Rels: []RelSpec{{Name: "one", ToOne: true, ToType: "u"}, {Name: "many", ToType: "u"}}}
	u := TypeSpec{Name: "u", Wrapped: true, Attrs: []AttrSpec{{Name: "x", Kind: KTime}}}
	s := &SchemaSpec{Types: []TypeSpec{t, u}}
	all := map[string][]string{"t": t.FieldNames(), "u": u.FieldNames()}
	rd := map[string][]string{"t": t.RelNames()}
	r1 := &ResSpec{Type: "t", ID: "1", Attrs: map[string]Val{"a": {K: KString, S: "<x>&"}, "n": {K: KUint64, Null: true, I: "18446744073709551615"}}, ToOne: map[string]string{"one": "u1"}, ToMany: map[string][]string{"many": {"u2", "u1"}}}
	u1 := &ResSpec{Type: "u", ID: "u1", Attrs: map[string]Val{"x": {K: KTime, Sec: 1574223421, Nsec: 5, Off: -300}}}
	c.Name = "every-error-member-subset"
	for mask := 0; mask < 256; mask++ {
		e := ErrSpec{}
		if mask&1 != 0 {
			e.ID = "e1"
		}
		if mask&2 != 0 {
			e.Code = "c"
		}
		if mask&4 != 0 {
			e.Status = "400"
		}
		if mask&8 != 0 {
			e.Title = "t<&>"
		}
		if mask&16 != 0 {
			e.Detail = "d\n"
		}
		if mask&32 != 0 {
			e.Links = map[string]string{"about": "https://x/y?z"}
		}
		if mask&64 != 0 {
			e.Source = map[string]any{"pointer": "/data", "n": 1.5}
		}
		if mask&128 != 0 {
			e.Meta = map[string]any{"k": []any{1.0, "a", nil}}
		}
		m.run(c, &DocSpec{Schema: s, Kind: "null", Errors: []ErrSpec{e, {Title: "second"}}, Prefix: "/", Fields: all, RelData: rd, Frags: []string{"t"}})
	}
	c.Name = "sizes"
	for n := 0; n <= 9; n++ {
		for _, holder := range []string{"Resources", "SoftCollection", "WrapperCollection"} {
			d := &DocSpec{Schema: s, Kind: "collection", Holder: holder, ColType: "t", Prefix: "https://example.org", Fields: all, RelData: rd, Frags: []string{"t"}, Included: []*ResSpec{u1}}
			for i := 0; i < n; i++ {
				rs := *r1
				rs.ID = fmt.Sprint(9 - i)
				d.Primary = append(d.Primary, &rs)
			}
			m.run(c, d)
		}
	}
	c.Extra["exhaustive_subspaces"] = []string{"all 256 subsets of the eight error members", "collection sizes 0..9 in each of the three collection implementations"}
}
