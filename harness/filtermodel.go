package main

import (
	"bytes"
	"fmt"
	"strings"

	"github.com/mfcochauxlaberge/jsonapi"
)

// FSpec is a filter tree written as plain data.
type FSpec struct {
	Op     string   `json:"o"`
	Field  string   `json:"f,omitempty"`
	Val    *Val     `json:"v,omitempty"`    // attribute comparison value
	Str    *string  `json:"s,omitempty"`    // to-one =/!= value, "has" value
	Strs   []string `json:"list,omitempty"` // "in" list, to-many =/!= value
	IsList bool     `json:"is_list,omitempty"`
	Kids   []FSpec  `json:"kids,omitempty"`
	// KidsVal: the value is the list of built Kids although the operator is not "and"/"or" (a case variant such as
	// "AND": an unknown operator, which allows nothing whatever its value is)
	KidsVal bool `json:"kids_val,omitempty"`
}

// build materialises the filter for the library (fresh slices every time:
// the library sorts to-many values in place).
func (f *FSpec) build() *jsonapi.Filter {
	out := &jsonapi.Filter{Field: f.Field, Op: f.Op}
	switch {
	case f.Op == "and" || f.Op == "or":
		kids := []*jsonapi.Filter{}
		for i := range f.Kids {
			kids = append(kids, f.Kids[i].build())
		}
		out.Val = kids
		out.Field = ""
	case f.KidsVal:
		kids := []*jsonapi.Filter{}
		for i := range f.Kids {
			kids = append(kids, f.Kids[i].build())
		}
		out.Val = kids
	case f.Val != nil:
		out.Val = f.Val.Go()
	case f.IsList:
		out.Val = append([]string{}, f.Strs...)
	case f.Str != nil:
		out.Val = *f.Str
	}
	return out
}

func (f *FSpec) leaves() int {
	if f.Op == "and" || f.Op == "or" {
		n := 0
		for i := range f.Kids {
			n += f.Kids[i].leaves()
		}
		return n
	}
	return 1
}

// cmpVal orders two non-nil values of the same ordered kind:
// numeric, lexicographic (bytes), chronological.
func cmpVal(a, b Val) int {
	switch {
	case a.K == KString:
		return strings.Compare(a.S, b.S)
	case isIntKind(a.K):
		return a.BigInt().Cmp(b.BigInt())
	case a.K == KTime:
		if a.Sec != b.Sec {
			if a.Sec < b.Sec {
				return -1
			}
			return 1
		}
		if a.Nsec != b.Nsec {
			if a.Nsec < b.Nsec {
				return -1
			}
			return 1
		}
		return 0
	case a.K == KBytes:
		return bytes.Compare(a.Bytes, b.Bytes)
	case a.K == KBool:
		if a.B == b.B {
			return 0
		}
		if !a.B {
			return -1
		}
		return 1
	}
	return 0
}

func orderedKind(k int) bool { return k != KBool }

func opOnCmp(op string, c int) (bool, bool) {
	switch op {
	case "=":
		return c == 0, true
	case "!=":
		return c != 0, true
	case "<":
		return c < 0, true
	case "<=":
		return c <= 0, true
	case ">":
		return c > 0, true
	case ">=":
		return c >= 0, true
	}
	return false, false
}

// evalFilter is the reference evaluator: the tree read as logic.
func evalFilter(f *FSpec, t *TypeSpec, rs *ResSpec) bool {
	switch f.Op {
	case "and":
		for i := range f.Kids {
			if !evalFilter(&f.Kids[i], t, rs) {
				return false
			}
		}
		return true
	case "or":
		for i := range f.Kids {
			if evalFilter(&f.Kids[i], t, rs) {
				return true
			}
		}
		return false
	}
	if a := t.Attr(f.Field); a != nil {
		rv := rs.wantAttr(*a)
		switch f.Op {
		case "in":
			if f.IsList && a.Kind == KString && !a.Null {
				return contains(f.Strs, rv.S)
			}
			return false
		case "=", "!=", "<", "<=", ">", ">=":
			if f.Val == nil {
				return false
			}
			fv := *f.Val
			if rv.IsNil() || fv.IsNil() {
				switch f.Op {
				case "=":
					return rv.IsNil() && fv.IsNil()
				case "!=":
					return !(rv.IsNil() && fv.IsNil())
				}
				return false // nil is never ordered
			}
			isOrder := f.Op != "=" && f.Op != "!="
			if isOrder && !orderedKind(a.Kind) {
				return false
			}
			r, _ := opOnCmp(f.Op, cmpVal(rv, fv))
			return r
		}
		return false // unknown operator
	}
	if rl := t.Rel(f.Field); rl != nil {
		if rl.ToOne {
			id := rs.ToOne[rl.Name]
			switch f.Op {
			case "in":
				return contains(f.Strs, id)
			case "=":
				return f.Str != nil && id == *f.Str
			case "!=":
				return f.Str != nil && id != *f.Str
			case "<", "<=", ">", ">=":
				// the ID of a to-one relationship is a string: ordered like strings (byte-wise)
				if f.Str == nil {
					return false
				}
				r, _ := opOnCmp(f.Op, strings.Compare(id, *f.Str))
				return r
			}
			return false
		}
		ids := rs.ToMany[rl.Name]
		switch f.Op {
		case "has":
			return f.Str != nil && contains(ids, *f.Str)
		case "=":
			return sameSet(ids, f.Strs)
		case "!=":
			return !sameSet(ids, f.Strs)
		}
		return false // to-many sets are never ordered; unknown operators allow nothing
	}
	return false
}

func (f *FSpec) String() string { return jsonStr(f) }

// genLeaf draws a well-typed leaf filter over type t.
func genLeaf(r *RNG, t *TypeSpec, rs *ResSpec) FSpec {
	ops := []string{"=", "!=", "<", "<=", ">", ">="}
	nf := len(t.Attrs) + len(t.Rels)
	if nf == 0 {
		return FSpec{Op: "and"}
	}
	if r.Chance(1, 40) {
		// degenerate leaves: the zero filter (what "filter={}" decodes to), an operator without a field, case
		// variants of the combinators with a list of filters as value. None of them names a field of the type
		// with a known operator: each allows nothing.
		switch r.Intn(4) {
		case 0:
			return FSpec{}
		case 1:
			return FSpec{Op: []string{"=", "!=", "<"}[r.Intn(3)]}
		case 2:
			return FSpec{Op: []string{"AND", "And", "OR", "Or"}[r.Intn(4)], KidsVal: true}
		default:
			k := genLeaf(r, t, rs)
			return FSpec{Op: []string{"AND", "And", "OR", "Or"}[r.Intn(4)], KidsVal: true, Kids: []FSpec{k}}
		}
	}
	i := r.Intn(nf)
	if i < len(t.Attrs) {
		a := t.Attrs[i]
		v := genVal(r, a.Kind, a.Null)
		if rs != nil && r.Chance(1, 3) {
			v = rs.wantAttr(a) // equal to the resource's value
		}
		v.UNil = false
		if v.Null && r.Chance(1, 6) {
			v = Val{K: a.Kind, Null: true, Nil: true}
		}
		op := ops[r.Intn(len(ops))]
		if r.Chance(1, 12) {
			op = []string{"~", "", "like", "==", "IN", "HAS", "AND", "Or", " =", "= "}[r.Intn(10)]
		}
		return FSpec{Op: op, Field: a.Name, Val: &v}
	}
	rl := t.Rels[i-len(t.Attrs)]
	if rl.ToOne {
		id := genID(r)
		if rs != nil && r.Bool() {
			id = rs.ToOne[rl.Name]
		}
		switch r.Intn(4) {
		case 0:
			list := genToMany(r, 4)
			if r.Bool() {
				list = append(list, id)
			}
			return FSpec{Op: "in", Field: rl.Name, Strs: list, IsList: true}
		case 1:
			return FSpec{Op: "=", Field: rl.Name, Str: &id}
		case 2:
			// ordering by ID text: "10" < "9", "007" < "7"
			if r.Bool() {
				id = r.Pick([]string{"10", "9", "007", "7", "100", "99", "1", "01", "a", "B"})
			}
			return FSpec{Op: []string{"<", "<=", ">", ">="}[r.Intn(4)], Field: rl.Name, Str: &id}
		default:
			return FSpec{Op: "!=", Field: rl.Name, Str: &id}
		}
	}
	ids := genToMany(r, 4)
	if rs != nil && r.Bool() {
		ids = shuffleStrings(r, rs.ToMany[rl.Name])
		if len(ids) >= 2 && r.Chance(1, 4) {
			// same length, one ID repeated in place of another: every filter ID is among the resource's, yet the
			// lists are not equal (whether read as sets or as multisets)
			ids = append([]string{}, ids...)
			ids[r.Intn(len(ids)-1)+1] = ids[0]
		}
	}
	switch r.Intn(4) {
	case 0:
		id := genID(r)
		if rs != nil && len(rs.ToMany[rl.Name]) > 0 && r.Bool() {
			id = rs.ToMany[rl.Name][r.Intn(len(rs.ToMany[rl.Name]))]
		}
		return FSpec{Op: "has", Field: rl.Name, Str: &id}
	case 1:
		return FSpec{Op: "=", Field: rl.Name, Strs: ids, IsList: true}
	case 2:
		return FSpec{Op: "!=", Field: rl.Name, Strs: ids, IsList: true}
	default:
		return FSpec{Op: []string{"<", ">", "<=", ">="}[r.Intn(4)], Field: rl.Name, Strs: ids, IsList: true}
	}
}

// genTree draws an and/or tree of the given maximum depth.
func genTree(r *RNG, t *TypeSpec, rs *ResSpec, depth int) FSpec {
	if depth <= 0 || r.Chance(1, 3) {
		return genLeaf(r, t, rs)
	}
	f := FSpec{Op: []string{"and", "or"}[r.Intn(2)]}
	n := r.Intn(4)
	for i := 0; i < n; i++ {
		f.Kids = append(f.Kids, genTree(r, t, rs, depth-1-r.Intn(2)))
	}
	return f
}

// genChain draws a deep, narrow tree (depth d).
func genChain(r *RNG, t *TypeSpec, rs *ResSpec, d int) FSpec {
	f := genLeaf(r, t, rs)
	for i := 0; i < d; i++ {
		n := FSpec{Op: []string{"and", "or"}[r.Intn(2)], Kids: []FSpec{f}}
		if r.Chance(1, 4) {
			n.Kids = append(n.Kids, genLeaf(r, t, rs))
		}
		f = n
	}
	return f
}

var _ = fmt.Sprint
