package main

import (
	"encoding/json"
	"fmt"
	"math/big"
	"strings"

	"github.com/mfcochauxlaberge/jsonapi"
)

// C06 — unmarshaling is faithful: accepted values are the payload's values.
type c06 struct{}

func init() { register(c06{}) }

func (c06) ID() string { return "C06" }
func (c06) Size(tier string) Size {
	if tier == "thorough" {
		return Size{Batches: 32, Cases: 8000}
	}
	return Size{Batches: 16, Cases: 1000}
}
func (c06) Rule() string {
	return "case = (attribute kind, nullable) x a valid JSON value text, decoded (1) by Attr.UnmarshalToType directly and (2) inside a resource payload by UnmarshalResource; integer literals: EVERY literal in -70000..70000 for the 8- and 16-bit kinds (direct path on every run; payload path exhaustive in thorough, +-1000 around each boundary in quick), every boundary +-k (k <= 64), 2^k+-1, random magnitudes up to 2^70, -0, fractions, exponents; null/true/false; strings with every escape form; RFC 3339 times with any offset and 0-9 fractional digits plus near misses; canonical / unpadded / non-zero-trailing-bit / whitespace base64; relationship data null, one identifier, lists with repeats, right and wrong type. Oracle: my own readers (number -> big.Rat, RFC 3339 -> instant, base64 -> bytes); acceptance obliges the exact value and Go type, null only for nullable kinds, absent fields read zero, and re-marshaling reproduces id, type, attributes (numbers by value) and linkage. Rejecting is never a violation. Non-trivial = accepted decode or payload with >= 1 field; distinct = (kind, text) / payload hash."
}
func (c06) Assumptions() []string {
	return []string{"texts my RFC 3339 / base64 readers do not vouch for (lowercase t/z, >9 fraction digits, unpadded or non-canonical base64) are counted as lenient_accepts when the library accepts them, never judged",
		"panics are C05's subject: here a panic only means 'not accepted'",
		"linkage identifiers are generated with a non-empty id"}
}
func (c06) Floors(tier string, c map[string]int64) []string {
	var out []string
	for _, k := range allKinds {
		for _, null := range []bool{false, true} {
			kn := kindName(k, null)
			if c["accepted/"+kn] == 0 || c["rejected/"+kn] == 0 {
				out = append(out, fmt.Sprintf("kind %s: accepted=%d rejected=%d (need both)", kn, c["accepted/"+kn], c["rejected/"+kn]))
			}
		}
	}
	for _, k := range []string{"payload_accepted", "payload_rejected", "linkage/null", "linkage/one", "linkage/list", "linkage_offered/wrong-type", "linkage_offered/null-for-to-many", "remarshal_ok"} {
		if c[k] == 0 {
			out = append(out, "never observed: "+k)
		}
	}
	return out
}

// decodeDirect calls Attr.UnmarshalToType and judges the event.
func (m c06) decodeDirect(c *Ctx, k int, null bool, text string) {
	c.Count("evaluations")
	kn := kindName(k, null)
	var got any
	var err error
	pi := Guard(func() { got, err = jsonapi.Attr{Name: "v", Type: k, Nullable: null}.UnmarshalToType([]byte(text)) })
	if pi != nil {
		c.Count("panicked/" + kn)
		c.Count("rejected/" + kn)
		return
	}
	accepted := err == nil
	if accepted {
		c.Count("accepted/" + kn)
	} else {
		c.Count("rejected/" + kn)
		if got != nil {
			c.Violate("error-with-value/"+kindNames[k], "UnmarshalToType(%s, %q) returned both %s and error %v", kn, clip(text, 60), describeGo(got), err)
		}
	}
	cl, msg := judgeLiteral(k, null, text, accepted, got)
	if cl == "lenient" {
		c.Count("lenient_accepts/" + kindNames[k])
		return
	}
	if cl != "" {
		c.Violate(cl+"/UnmarshalToType", "UnmarshalToType(%s, %s): %s", kn, clip(text, 80), msg)
		return
	}
	if accepted && len(text) < 200 {
		c.Nontrivial(kn + "|" + text)
	}
}

// payload spec
type c06payload struct {
	Type  TypeSpec          `json:"type"`
	ID    string            `json:"id"`
	Attrs map[string]string `json:"attrs"` // attribute name -> raw JSON value text
	Rels  map[string]string `json:"rels"`  // relationship name -> raw JSON text of its data member ("" = no data member)
	Extra bool              `json:"extra_members"`
	Meta  string            `json:"meta,omitempty"` // raw JSON text of a resource-level meta member
	NoID  bool              `json:"no_id,omitempty"` // the payload has no id member (a creation request): the ID reads ""
}

func (p *c06payload) bytes() []byte {
	var sb strings.Builder
	idb, _ := json.Marshal(p.ID)
	tb, _ := json.Marshal(p.Type.Name)
	if p.NoID {
		fmt.Fprintf(&sb, `{"type":%s`, tb)
	} else {
		fmt.Fprintf(&sb, `{"id":%s,"type":%s`, idb, tb)
	}
	if len(p.Attrs) > 0 || p.Extra {
		sb.WriteString(`,"attributes":{`)
		for i, k := range sortedKeys(p.Attrs) {
			if i > 0 {
				sb.WriteString(",")
			}
			kb, _ := json.Marshal(k)
			fmt.Fprintf(&sb, "%s: %s ", kb, p.Attrs[k])
		}
		sb.WriteString("}")
	}
	if len(p.Rels) > 0 {
		sb.WriteString(`,"relationships":{`)
		for i, k := range sortedKeys(p.Rels) {
			if i > 0 {
				sb.WriteString(",")
			}
			kb, _ := json.Marshal(k)
			fmt.Fprintf(&sb, "%s:{", kb)
			if p.Extra {
				sb.WriteString(`"links":{"self":"/x"},"meta":{"k":1}`)
				if p.Rels[k] != "" {
					sb.WriteString(",")
				}
			}
			if p.Rels[k] != "" {
				fmt.Fprintf(&sb, `"data":%s`, p.Rels[k])
			}
			sb.WriteString("}")
		}
		sb.WriteString("}")
	}
	if p.Extra {
		sb.WriteString(`,"links":{"self":"/t/1"}`)
		if p.Meta == "" {
			sb.WriteString(`,"meta":{"m":true}`)
		}
	}
	if p.Meta != "" {
		sb.WriteString(`,"meta":` + p.Meta)
	}
	sb.WriteString("}")
	return []byte(sb.String())
}

// linkage parsed by my own walk: list of (type,id), isNull, isList
func readLinkage(text string) (ids [][2]string, isNull, isList, ok bool) {
	jv, err := parseJV([]byte(text))
	if err != nil {
		return nil, false, false, false
	}
	one := func(x *JV) ([2]string, bool) {
		if x.Kind != 'o' || !x.Get("id").IsStr() || !x.Get("type").IsStr() {
			return [2]string{}, false
		}
		return [2]string{x.Get("type").Str, x.Get("id").Str}, true
	}
	switch jv.Kind {
	case 'n':
		return nil, true, false, true
	case 'o':
		p, good := one(jv)
		return [][2]string{p}, false, false, good
	case 'a':
		for _, e := range jv.Arr {
			p, good := one(e)
			if !good {
				return nil, false, true, false
			}
			ids = append(ids, p)
		}
		return ids, false, true, true
	}
	return nil, false, false, false
}

func (m c06) payload(c *Ctx, p *c06payload) {
	c.Count("evaluations")
	t := &p.Type
	data := p.bytes()
	desc := func() string { return clip(string(data), 1500) + " against type " + clip(jsonStr(t), 600) }
	for _, rl := range t.Rels {
		if text := p.Rels[rl.Name]; text != "" {
			ids, isNull, _, ok := readLinkage(text)
			if ok && isNull && !rl.ToOne {
				c.Count("linkage_offered/null-for-to-many")
			}
			for _, x := range ids {
				if ok && x[0] != rl.ToType {
					c.Count("linkage_offered/wrong-type")
					break
				}
			}
		}
	}
	var res jsonapi.Resource
	var err error
	var schema *jsonapi.Schema
	pi := Guard(func() {
		schema = buildSchema(&SchemaSpec{Types: []TypeSpec{*t}})
		res, err = jsonapi.UnmarshalResource(data, schema)
	})
	if pi != nil {
		c.Count("payload_panicked")
		c.Count("payload_rejected")
		return
	}
	if err != nil {
		c.Count("payload_rejected")
		if res != nil {
			c.Violate("error-with-value/UnmarshalResource", "both a resource and error %v for %s", err, desc())
		}
		m.partial(c, p, schema, data) // what the full path refuses must not come back wrong through the partial path
		return
	}
	c.Count("payload_accepted")
	impl := implName(t)
	lenient := false // an encoding my readers do not vouch for was accepted: its re-marshaling is not judged
	if res == nil {
		c.Violate("nil-result-without-error", "%s", desc())
		return
	}
	if n := res.GetType().Name; n != t.Name {
		c.Violate("type-name", "accepted resource has type %q, payload says %q; %s", n, t.Name, desc())
		return
	}
	if id, _ := res.Get("id").(string); id != p.ID {
		c.Violate("id-changed", "id %q, payload says %q", id, p.ID)
		return
	}
	for _, a := range t.Attrs {
		var got any
		if pi := Guard(func() { got = res.Get(a.Name) }); pi != nil {
			c.Violate("panic@"+pi.Frame+"/read", "%s", pi)
			return
		}
		text, present := p.Attrs[a.Name]
		if !present {
			if ok, msg := matchVal(zeroVal(a.Kind, a.Null), got, false); !ok {
				c.Violate("absent-field-not-zero/"+kindNames[a.Kind], "attribute %q absent from the payload reads %s; %s", a.Name, msg, desc())
				return
			}
			continue
		}
		// wrapped structs read a nil pointer as untyped nil: normalise before judging
		g := got
		if g == nil && a.Null {
			g = Val{K: a.Kind, Null: true, Nil: true}.Go()
		}
		cl, msg := judgeLiteral(a.Kind, a.Null, text, true, g)
		if cl == "lenient" {
			c.Count("lenient_accepts/" + kindNames[a.Kind])
			lenient = true
			continue
		}
		if cl != "" {
			c.Violate(cl+"/UnmarshalResource", "(%s) attribute %q (%s) = %s: %s; %s", impl, a.Name, kindName(a.Kind, a.Null), clip(text, 80), msg, desc())
			return
		}
	}
	wrongType := false
	for _, rl := range t.Rels {
		got := res.Get(rl.Name)
		text := p.Rels[rl.Name]
		var want []string
		if text != "" {
			ids, isNull, isList, ok := readLinkage(text)
			switch {
			case !ok:
				c.Violate("malformed-linkage-accepted", "relationship %q data %s accepted; %s", rl.Name, clip(text, 120), desc())
				return
			case isNull:
				c.Count("linkage/null")
				if !rl.ToOne {
					c.Violate("null-for-to-many-accepted", "relationship %q is to-many but data null was accepted (stored %v); %s", rl.Name, got, desc())
					return
				}
			case isList != !rl.ToOne:
				c.Violate("linkage-cardinality-accepted", "relationship %q (toOne=%v) accepted data %s; %s", rl.Name, rl.ToOne, clip(text, 120), desc())
				return
			}
			for _, p2 := range ids {
				want = append(want, p2[1])
				if p2[0] != rl.ToType {
					wrongType = true
					c.Count("linkage/wrong-type")
					c.Violate("wrong-linkage-type-accepted", "relationship %q targets %q but an identifier of type %q was accepted; %s", rl.Name, rl.ToType, p2[0], desc())
					return
				}
			}
			if isList {
				c.Count("linkage/list")
			} else if !isNull {
				c.Count("linkage/one")
			}
		}
		if rl.ToOne {
			w := ""
			if len(want) > 0 {
				w = want[0]
			}
			if g, ok := got.(string); !ok || g != w {
				c.Violate("to-one-changed", "relationship %q holds %v, payload lists %q; %s", rl.Name, got, w, desc())
				return
			}
		} else {
			g, ok := got.([]string)
			// "exactly the IDs listed": the same IDs, each as often as listed; in which order a to-many relationship
			// holds them is not stated (it is a set in C01, and marshaling reorders it)
			if !ok || !sameSet(g, want) && !(len(g) == 0 && len(want) == 0) {
				c.Violate("to-many-changed", "relationship %q holds %v, payload lists %v; %s", rl.Name, got, want, desc())
				return
			}
		}
	}
	_ = wrongType
	if lenient {
		c.Count("remarshal_skipped_lenient")
		return
	}
	// re-marshal: id, type, attributes by value, linkage as multiset
	var out []byte
	if pi := Guard(func() {
		out = jsonapi.MarshalResource(res, "/", t.FieldNames(), map[string][]string{t.Name: t.RelNames()})
	}); pi != nil {
		c.Violate("panic@"+pi.Frame+"/remarshal", "%s; %s", pi, desc())
		return
	}
	root, perr := parseJV(out)
	if perr != nil {
		c.Violate("remarshal-invalid-json", "%v: output %q for %s", perr, clip(string(out), 200), desc())
		return
	}
	if root.Get("id") == nil || root.Get("id").Str != p.ID || root.Get("type") == nil || root.Get("type").Str != t.Name {
		c.Violate("remarshal-id-type", "re-marshaled %s", clip(string(out), 300))
		return
	}
	for name, text := range p.Attrs {
		a := t.Attr(name)
		pv, err := parseJV([]byte(text))
		if err != nil {
			continue
		}
		gv := root.Get("attributes").Get(name)
		if gv == nil {
			c.Violate("remarshal-attribute-missing", "attribute %q missing from %s", name, clip(string(out), 400))
			return
		}
		if a.Kind == KTime || a.Kind == KBytes {
			// same value, possibly another spelling (zone, padding): compare decoded values
			if pv.Kind == 's' && gv.Kind == 's' {
				if a.Kind == KTime {
					s1, n1, ok1 := readRFC3339(pv.Str)
					s2, n2, ok2 := readRFC3339(gv.Str)
					if ok1 && ok2 && (s1 != s2 || n1 != n2) {
						c.Violate("remarshal-attribute-changed/time", "attribute %q: payload %s, re-marshaled %s", name, text, gv.canon())
						return
					}
				} else {
					b1, ok1 := readBase64(pv.Str)
					b2, ok2 := readBase64(gv.Str)
					if ok1 && ok2 && string(b1) != string(b2) {
						c.Violate("remarshal-attribute-changed/bytes", "attribute %q: payload %s, re-marshaled %s", name, clip(text, 80), clip(gv.canon(), 80))
						return
					}
				}
				continue
			}
		}
		if pv.canon() != gv.canon() {
			c.Violate("remarshal-attribute-changed/"+kindNames[a.Kind], "attribute %q (%s): payload %s, re-marshaled %s; %s", name, kindName(a.Kind, a.Null), clip(text, 80), clip(gv.canon(), 80), desc())
			return
		}
	}
	for name, text := range p.Rels {
		if text == "" {
			continue
		}
		ids, isNull, _, ok := readLinkage(text)
		if !ok {
			continue
		}
		gd := root.Get("relationships").Get(name).Get("data")
		if gd == nil {
			c.Violate("remarshal-linkage-missing", "relationship %q has no data in %s", name, clip(string(out), 400))
			return
		}
		var got [][2]string
		switch gd.Kind {
		case 'o':
			got = [][2]string{{gd.Get("type").Str, gd.Get("id").Str}}
		case 'a':
			for _, e := range gd.Arr {
				got = append(got, [2]string{e.Get("type").Str, e.Get("id").Str})
			}
		}
		a, b := []string{}, []string{}
		for _, x := range ids {
			a = append(a, x[0]+"\x00"+x[1])
		}
		for _, x := range got {
			b = append(b, x[0]+"\x00"+x[1])
		}
		if !sameSet(a, b) || (isNull && gd.Kind != 'n') {
			c.Violate("remarshal-linkage-changed", "relationship %q: payload %s, re-marshaled %s; %s", name, clip(text, 200), clip(gd.canon(), 200), desc())
			return
		}
	}
	c.Count("remarshal_ok")
	if len(p.Attrs)+len(p.Rels) > 0 {
		c.Nontrivial(string(data) + jsonStr(t))
	}
	m.partial(c, p, schema, data)
}

// partial judges the same payload through UnmarshalPartialResource: whatever it accepts must hold the
// values the JSON denotes, exactly like the full path.
func (m c06) partial(c *Ctx, p *c06payload, schema *jsonapi.Schema, data []byte) {
	t := &p.Type
	var res *jsonapi.SoftResource
	var err error
	if pi := Guard(func() { res, err = jsonapi.UnmarshalPartialResource(data, schema) }); pi != nil || err != nil || res == nil {
		c.Count("partial_rejected")
		return
	}
	c.Count("partial_accepted")
	desc := func() string { return clip(string(data), 1200) + " against type " + clip(jsonStr(t), 500) }
	for name, text := range p.Attrs {
		a := t.Attr(name)
		if a == nil {
			continue
		}
		var got any
		if pi := Guard(func() { got = res.Get(name) }); pi != nil {
			return
		}
		if got == nil && a.Null {
			got = Val{K: a.Kind, Null: true, Nil: true}.Go()
		}
		cl, msg := judgeLiteral(a.Kind, a.Null, text, true, got)
		if cl != "" && cl != "lenient" {
			c.Violate(cl+"/UnmarshalPartialResource", "attribute %q (%s) = %s: %s; %s", name, kindName(a.Kind, a.Null), clip(text, 80), msg, desc())
			return
		}
	}
	for _, rl := range t.Rels {
		text := p.Rels[rl.Name]
		if text == "" {
			continue
		}
		ids, isNull, isList, ok := readLinkage(text)
		switch {
		case !ok:
			c.Violate("malformed-linkage-accepted/UnmarshalPartialResource", "relationship %q data %s accepted; %s", rl.Name, clip(text, 120), desc())
			return
		case isNull && !rl.ToOne:
			c.Violate("null-for-to-many-accepted/UnmarshalPartialResource", "relationship %q; %s", rl.Name, desc())
			return
		case !isNull && isList != !rl.ToOne:
			c.Violate("linkage-cardinality-accepted/UnmarshalPartialResource", "relationship %q (toOne=%v) accepted data %s; %s", rl.Name, rl.ToOne, clip(text, 120), desc())
			return
		}
		var want []string
		for _, x := range ids {
			want = append(want, x[1])
			if x[0] != rl.ToType {
				c.Violate("wrong-linkage-type-accepted/UnmarshalPartialResource", "relationship %q targets %q, identifier of type %q accepted; %s", rl.Name, rl.ToType, x[0], desc())
				return
			}
		}
		got := res.Get(rl.Name)
		if rl.ToOne {
			w := ""
			if len(want) > 0 {
				w = want[0]
			}
			if g, ok := got.(string); !ok || g != w {
				c.Violate("to-one-changed/UnmarshalPartialResource", "relationship %q holds %v, payload lists %q; %s", rl.Name, got, w, desc())
				return
			}
		} else if g, ok := got.([]string); !ok || (!sameSet(g, want) && !(len(g) == 0 && len(want) == 0)) {
			c.Violate("to-many-changed/UnmarshalPartialResource", "relationship %q holds %v, payload lists %v; %s", rl.Name, got, want, desc())
			return
		}
	}
}

// mixedArray: an array payload whose elements are of two types that use the SAME attribute names with different
// kinds. Every element is read as a resource of the type its own "type" member names.
func (m c06) mixedArray(c *Ctx, r *RNG, t *TypeSpec) {
	if len(t.Attrs) == 0 {
		return
	}
	t1 := *t
	t1.Rels = nil
	t2 := TypeSpec{Name: t.Name + "-2", Wrapped: !t.Wrapped}
	for i, a := range t.Attrs {
		t2.Attrs = append(t2.Attrs, AttrSpec{Name: a.Name, Kind: allKinds[(i*5+int(strSeed(a.Name)%7))%len(allKinds)], Null: !a.Null})
	}
	s := &SchemaSpec{Types: []TypeSpec{t1, t2}}
	order := []*TypeSpec{&s.Types[0], &s.Types[1], &s.Types[0], &s.Types[1]}
	if r.Bool() {
		order = []*TypeSpec{&s.Types[1], &s.Types[0], &s.Types[1]}
	}
	var parts []string
	for i, ty := range order {
		p := &c06payload{Type: *ty, ID: fmt.Sprint("m", i), Attrs: map[string]string{}, Rels: map[string]string{}}
		for _, a := range ty.Attrs {
			p.Attrs[a.Name] = validLiteral(r, a)
		}
		parts = append(parts, string(p.bytes()))
	}
	body := "[" + strings.Join(parts, ",") + "]"
	var col jsonapi.Collection
	var err error
	if pi := Guard(func() { col, err = jsonapi.UnmarshalCollection([]byte(body), buildSchema(s)) }); pi != nil {
		c.Violate("panic@"+pi.Frame+"/"+panicClass(pi.Val)+"/mixed-array", "%s; payload %s", pi, clip(body, 600))
		return
	}
	c.Count("mixed_type_arrays")
	if err != nil {
		c.Violate("mixed-array-rejected", "an array of valid resources of two types is refused: %v; payload %s", err, clip(body, 600))
		return
	}
	if col.Len() != len(order) {
		c.Violate("mixed-array-length", "%d elements, payload has %d", col.Len(), len(order))
		return
	}
	for i, ty := range order {
		res := col.At(i)
		if n := res.GetType().Name; n != ty.Name {
			c.Violate("type-name/mixed-array", "element %d has type %q, its payload says %q; payload %s", i, n, ty.Name, clip(body, 600))
			return
		}
		for _, a := range ty.Attrs {
			if _, good := valFromGo(a.Kind, a.Null, res.Get(a.Name)); !good {
				c.Violate("ill-typed-attribute/mixed-array", "element %d (%s) attribute %q holds %s, its type declares %s; payload %s", i, ty.Name, a.Name, describeGo(res.Get(a.Name)), kindName(a.Kind, a.Null), clip(body, 600))
				return
			}
		}
	}
}

// ---- literal generators

func intLiterals(r *RNG, k int) []string {
	lo, hi := intRange(k)
	out := []string{"0", "-0", "1", "-1", "1.0", "1.5", "0.0", "-1.0", "1e2", "1E2", "1e0", "12e-1", "1e-2", "5e-1", "100e-2", "1e19", "1e20", "2.5e1", "1.00", "-1e3",
		// whole numbers in float notation beyond 2^53 (a detour through float64 rounds them) and near the limits
		"9007199254740993.0", "9007199254740993e0", "-9007199254740993.0", "1234567890123456789e0", "123456789012345678.9e1", "9223372036854775807.0", "-9223372036854775808.0",
		"9223372036854775807e0", "18446744073709551615.0", "18446744073709551615e0", "9007199254740992.5", "4611686018427387905.000", "1e18", "72057594037927937.0", "2147483647.0", "32767e0", "127.0", "255.0", "65535e0", "4294967295.0"}
	for d := int64(-64); d <= 64; d++ {
		out = append(out, new(big.Int).Add(lo, big.NewInt(d)).String(), new(big.Int).Add(hi, big.NewInt(d)).String())
	}
	for b := uint(0); b <= 70; b += uint(1 + r.Intn(3)) {
		p := new(big.Int).Lsh(big.NewInt(1), b)
		for d := int64(-1); d <= 1; d++ {
			x := new(big.Int).Add(p, big.NewInt(d))
			out = append(out, x.String(), new(big.Int).Neg(x).String())
		}
	}
	for i := 0; i < 10; i++ {
		x := new(big.Int).SetUint64(r.Uint64())
		x.Lsh(x, uint(r.Intn(8)))
		if r.Bool() {
			x.Neg(x)
		}
		out = append(out, x.String())
	}
	return out
}

var stringLiterals = []string{`"\ud83d\ude00"`, `"a\ud83d\ude00b"`, `"\uD83D\uDE00\uD83D\uDE00"`, `"\ud83d\ude00\u00e9\u65e5"`, `"\udbff\udfff"`, `""`, `"a"`, `"A"`, `"😀"`, `"\n\t\r\b\f"`, `"\/"`, `"\\"`, `"\""`, `"é"`, `"日本語"`, `"😀"`, `"\u0000"`, `"a\u0000b"`, `"<>&"`, `"<"`, `"\ud800"`, `"null"`, `"5"`, `"true"`, `" "`, `"é"`, `" "`}

var otherLiterals = []string{"null", "true", "false", "[]", "{}", "[1]", `{"a":1}`, "5", `"5"`, "0", `""`, "1.5", `"true"`, `[null]`}

func timeLiterals(r *RNG) []string {
	out := []string{`"2019-11-19T23:17:01-05:00"`, `"0001-01-01T00:00:00Z"`, `"9999-12-31T23:59:59.999999999Z"`, `"2020-02-29T12:00:00+14:00"`, `"2021-02-29T12:00:00Z"`, `"2019-13-01T00:00:00Z"`,
		`"2019-01-01T24:00:00Z"`, `"2019-01-01T23:59:60Z"`, `"2019-01-01 00:00:00Z"`, `"2019-01-01t00:00:00z"`, `"2019-01-01T00:00:00"`, `"2019-01-01T00:00:00+24:00"`, `"2019-01-01"`, `""`, `"now"`,
		`"2019-01-01T00:00:00.1234567891Z"`, `"2019-01-01T00:00:00,5Z"`, `"2019-1-1T00:00:00Z"`, `"2019-01-01T00:00:00-00:00"`, `"2019-06-30T23:59:59.5+05:30"`, `"1969-12-31T23:59:59.999999999Z"`,
		// dates and times that do not exist (accepting one means storing some other instant)
		`"2023-02-30T10:00:00Z"`, `"2023-02-29T10:00:00Z"`, `"1900-02-29T00:00:00Z"`, `"2024-02-30T00:00:00Z"`, `"2023-04-31T23:59:59Z"`, `"2023-06-31T00:00:00+02:00"`, `"2023-11-31T12:00:00.5Z"`, `"2023-00-10T00:00:00Z"`,
		`"2023-01-00T00:00:00Z"`, `"2023-01-32T00:00:00Z"`, `"2023-12-31T24:00:00Z"`, `"2023-12-31T23:60:00Z"`, `"2000-02-29T00:00:00Z"`, `"2024-02-29T23:59:59Z"`}
	for i := 0; i < 12; i++ {
		y, mo, d := r.Range(1, 9999), r.Range(1, 12), r.Range(1, 28)
		if i%4 == 3 {
			d = r.Range(29, 31) // exists or not depending on month and year: my reader decides
		}
		h, mi, s := r.Range(0, 23), r.Range(0, 59), r.Range(0, 59)
		frac := ""
		if n := r.Intn(10); n > 0 {
			frac = "."
			for j := 0; j < n; j++ {
				frac += string(rune('0' + r.Intn(10)))
			}
		}
		zone := "Z"
		if r.Bool() {
			oh, om := r.Range(0, 14), r.Range(0, 59)
			if oh == 14 {
				om = 0
			}
			zone = fmt.Sprintf("%s%02d:%02d", []string{"+", "-"}[r.Intn(2)], oh, om)
		}
		out = append(out, fmt.Sprintf(`"%04d-%02d-%02dT%02d:%02d:%02d%s%s"`, y, mo, d, h, mi, s, frac, zone))
	}
	return out
}

func bytesLiterals(r *RNG) []string {
	out := []string{`""`, `"QQ=="`, `"QUI="`, `"QUJD"`, `"QQ"`, `"QUI"`, `"QR=="`, `"QUJ="`, `"QU JD"`, `"QUJD\n"`, `"QU\r\nJD"`, `"-_-_"`, `"+/+/"`, `"===="`, `"Q==="`, `"QUJDRA=="`, `"not base64!"`, `"AAAA"`, `"////"`, `"/w=="`}
	for i := 0; i < 8; i++ {
		out = append(out, `"`+encodeBase64(genBytes(r))+`"`)
	}
	return out
}

func literalsFor(r *RNG, k int) []string {
	switch {
	case isIntKind(k):
		return intLiterals(r, k)
	case k == KString:
		return stringLiterals
	case k == KBool:
		return []string{"true", "false"}
	case k == KTime:
		return timeLiterals(r)
	default:
		return bytesLiterals(r)
	}
}

func (m c06) Case(c *Ctx, r *RNG) {
	k := allKinds[r.Intn(len(allKinds))]
	null := r.Bool()
	lits := append(append([]string{}, literalsFor(r, k)...), otherLiterals...)
	for _, text := range lits {
		m.decodeDirect(c, k, null, text)
	}
	// payloads: a random type, each present attribute with a literal of its own kind (mostly) or a foreign one
	s := genSchema(r, genOpts{MaxTypes: 1, MaxAttrs: 5, MaxRels: 3, AllowWrap: true})
	t := s.Types[0]
	m.mixedArray(c, r, &t)
	for rep := 0; rep < 6; rep++ {
		p := &c06payload{Type: t, ID: genID(r), Attrs: map[string]string{}, Rels: map[string]string{}, Extra: r.Chance(1, 4)}
		if r.Chance(1, 6) {
			p.NoID, p.ID = true, "" // a creation request: no id member; whatever was unmarshaled before, the ID reads ""
		}
		for _, a := range t.Attrs {
			if r.Chance(1, 4) {
				continue
			}
			pool := literalsFor(r, a.Kind)
			text := pool[r.Intn(len(pool))]
			switch r.Intn(12) {
			case 0:
				text = otherLiterals[r.Intn(len(otherLiterals))]
			case 1:
				text = "null"
			}
			p.Attrs[a.Name] = text
		}
		for _, rl := range t.Rels {
			if r.Chance(1, 4) {
				continue
			}
			ident := func(typ string) string {
				idb, _ := json.Marshal(genNonEmptyID(r))
				tb, _ := json.Marshal(typ)
				if r.Chance(1, 5) {
					return fmt.Sprintf(`{"type":%s,"id":%s,"meta":{"x":1}}`, tb, idb)
				}
				return fmt.Sprintf(`{"id":%s,"type":%s}`, idb, tb)
			}
			typ := rl.ToType
			if r.Chance(1, 8) {
				typ = "wrong-type"
			}
			switch r.Intn(8) {
			case 7: // linkage of the wrong JSON shape for the cardinality, or malformed
				p.Rels[rl.Name] = r.Pick([]string{ident(typ), "[" + ident(typ) + "]", "5", `"x"`, `{}`, `[{"id":"a","type":"` + rl.ToType + `"},5]`, `[[]]`, "true"})
			case 0:
				p.Rels[rl.Name] = "" // relationship object without data
			case 1:
				p.Rels[rl.Name] = "null"
			case 2, 3:
				p.Rels[rl.Name] = ident(typ)
			default:
				n := r.Intn(4)
				parts := []string{}
				for i := 0; i < n; i++ {
					parts = append(parts, ident(typ))
				}
				if n > 0 && r.Chance(1, 3) {
					parts = append(parts, parts[0]) // repeated ID
				}
				if n > 0 && r.Chance(1, 5) {
					// one element that is not an identifier of the target type, NOT in the last position
					bad := r.Pick([]string{ident("wrong-type"), "5", "null", `"x"`, `{"id":"zz"}`, `[]`, ident("")})
					at := r.Intn(len(parts))
					parts = append(parts[:at], append([]string{bad}, parts[at:]...)...)
				}
				p.Rels[rl.Name] = "[" + strings.Join(parts, ",") + "]"
			}
		}
		if c.Index < 1 && rep == 0 {
			c.Sample(map[string]any{"payload": string(p.bytes()), "type": t})
		}
		m.payload(c, p)
	}
}

func genNonEmptyID(r *RNG) string {
	for {
		if id := genID(r); id != "" {
			return id
		}
	}
}

func (m c06) Directed(c *Ctx) {
	sameNameCheck(c, "C06")
	c.Name = "exhaustive-small-ints-direct"
	for _, k := range []int{KInt8, KUint8, KInt16, KUint16} {
		for _, null := range []bool{false, true} {
			for v := -70000; v <= 70000; v++ {
				m.decodeDirect(c, k, null, fmt.Sprint(v))
			}
		}
	}
	c.Name = "small-ints-through-payload"
	for _, wrapped := range []bool{false, true} {
		for _, k := range []int{KInt8, KUint8, KInt16, KUint16, KInt32, KUint32} {
			for _, null := range []bool{false, true} {
				t := TypeSpec{Name: "t", Wrapped: wrapped, Attrs: []AttrSpec{{Name: "v", Kind: k, Null: null}}}
				lo, hi := intRange(k)
				try := func(v int64) {
					m.payload(c, &c06payload{Type: t, ID: "1", Attrs: map[string]string{"v": fmt.Sprint(v)}})
				}
				if c.Thorough() && (k == KInt8 || k == KUint8 || k == KInt16 || k == KUint16) {
					for v := int64(-70000); v <= 70000; v++ {
						try(v)
					}
					continue
				}
				for d := int64(-1000); d <= 1000; d += 1 {
					if wrapped && d%7 != 0 {
						continue
					}
					try(lo.Int64() + d)
					try(hi.Int64() + d)
					try(d)
				}
			}
		}
	}
	c.Name = "witness-null-for-non-nullable"
	for _, k := range []int{KString, KTime, KBytes, KInt, KBool} {
		m.decodeDirect(c, k, false, "null")
		m.payload(c, &c06payload{Type: TypeSpec{Name: "t", Attrs: []AttrSpec{{Name: "v", Kind: k}}}, ID: "1", Attrs: map[string]string{"v": "null"}})
	}
	c.Name = "witness-linkage"
	t := TypeSpec{Name: "t", Rels: []RelSpec{{Name: "one", ToOne: true, ToType: "u"}, {Name: "many", ToType: "u"}}}
	m.payload(c, &c06payload{Type: t, ID: "1", Rels: map[string]string{"one": `{"type":"wrong","id":"x"}`}})
	m.payload(c, &c06payload{Type: t, ID: "1", Rels: map[string]string{"many": `null`}})
	m.payload(c, &c06payload{Type: t, ID: "1", Rels: map[string]string{"many": `[{"type":"u","id":"b"},{"type":"u","id":"a"},{"type":"u","id":"b"}]`, "one": `{"type":"u","id":"x"}`}})
	c.Extra["exhaustive_subspaces"] = []string{"every integer literal in -70000..70000 for int8/uint8/int16/uint16 x nullable through Attr.UnmarshalToType (every run) and through UnmarshalResource (thorough; +-1000 around 0 and each boundary in quick)"}
}
