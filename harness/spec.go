package main

import (
	"bytes"
	"fmt"
	"math/big"
	"net/url"
	"reflect"
	"sort"
	"strings"
	"sync"
	"time"
	"unicode/utf8"

	"github.com/mfcochauxlaberge/jsonapi"
)

// ---- kinds

const (
	KString = jsonapi.AttrTypeString
	KInt    = jsonapi.AttrTypeInt
	KInt8   = jsonapi.AttrTypeInt8
	KInt16  = jsonapi.AttrTypeInt16
	KInt32  = jsonapi.AttrTypeInt32
	KInt64  = jsonapi.AttrTypeInt64
	KUint   = jsonapi.AttrTypeUint
	KUint8  = jsonapi.AttrTypeUint8
	KUint16 = jsonapi.AttrTypeUint16
	KUint32 = jsonapi.AttrTypeUint32
	KUint64 = jsonapi.AttrTypeUint64
	KBool   = jsonapi.AttrTypeBool
	KTime   = jsonapi.AttrTypeTime
	KBytes  = jsonapi.AttrTypeBytes
)

var allKinds = []int{KString, KInt, KInt8, KInt16, KInt32, KInt64, KUint, KUint8, KUint16, KUint32, KUint64, KBool, KTime, KBytes}

var kindNames = map[int]string{KString: "string", KInt: "int", KInt8: "int8", KInt16: "int16", KInt32: "int32", KInt64: "int64",
	KUint: "uint", KUint8: "uint8", KUint16: "uint16", KUint32: "uint32", KUint64: "uint64", KBool: "bool", KTime: "time", KBytes: "bytes"}

func kindName(k int, null bool) string {
	n, ok := kindNames[k]
	if !ok {
		n = fmt.Sprintf("invalid(%d)", k)
	}
	if null {
		return "*" + n
	}
	return n
}

func isIntKind(k int) bool { return k >= KInt && k <= KUint64 }

// intRange gives the inclusive range of an integer kind (int/uint are 64-bit here).
func intRange(k int) (lo, hi *big.Int) {
	bits := map[int]uint{KInt: 64, KInt8: 8, KInt16: 16, KInt32: 32, KInt64: 64, KUint: 64, KUint8: 8, KUint16: 16, KUint32: 32, KUint64: 64}[k]
	one := big.NewInt(1)
	if k >= KUint {
		hi = new(big.Int).Sub(new(big.Int).Lsh(one, bits), one)
		return big.NewInt(0), hi
	}
	hi = new(big.Int).Sub(new(big.Int).Lsh(one, bits-1), one)
	lo = new(big.Int).Neg(new(big.Int).Lsh(one, bits-1))
	return lo, hi
}

var goTypes = map[int]reflect.Type{
	KString: reflect.TypeOf(""), KInt: reflect.TypeOf(int(0)), KInt8: reflect.TypeOf(int8(0)), KInt16: reflect.TypeOf(int16(0)),
	KInt32: reflect.TypeOf(int32(0)), KInt64: reflect.TypeOf(int64(0)), KUint: reflect.TypeOf(uint(0)), KUint8: reflect.TypeOf(uint8(0)),
	KUint16: reflect.TypeOf(uint16(0)), KUint32: reflect.TypeOf(uint32(0)), KUint64: reflect.TypeOf(uint64(0)), KBool: reflect.TypeOf(false),
	KTime: reflect.TypeOf(time.Time{}), KBytes: reflect.TypeOf([]byte{}),
}

func goType(k int, null bool) reflect.Type {
	t := goTypes[k]
	if null {
		return reflect.PointerTo(t)
	}
	return t
}

// ---- values as plain data

// Val is a value of an attribute kind written as plain data (a Spec literal).
type Val struct {
	K     int    `json:"k"`
	Null  bool   `json:"nullable,omitempty"`
	Nil   bool   `json:"nil,omitempty"`         // nil pointer (nullable kinds only)
	UNil  bool   `json:"untyped_nil,omitempty"` // pass an untyped nil to Set
	S     string `json:"s,omitempty"`
	I     string `json:"i,omitempty"` // integer, decimal
	B     bool   `json:"b,omitempty"`
	Sec   int64  `json:"sec,omitempty"`
	Nsec  int    `json:"nsec,omitempty"`
	Off   int    `json:"off_min,omitempty"` // zone offset in minutes
	Bytes []byte `json:"bytes,omitempty"`
	// NilSlice: an empty byte string given as a nil slice ([]byte(nil)) instead of an empty non-nil one
	NilSlice bool `json:"nil_slice,omitempty"`
}

func (v Val) IsNil() bool { return v.Null && (v.Nil || v.UNil) }

func (v Val) BigInt() *big.Int {
	n, ok := new(big.Int).SetString(v.I, 10)
	if !ok {
		return big.NewInt(0)
	}
	return n
}

func (v Val) Time() time.Time {
	loc := time.UTC
	if v.Off != 0 {
		loc = time.FixedZone("", v.Off*60)
	}
	return time.Unix(v.Sec, int64(v.Nsec)).In(loc)
}

// String is a canonical text used for hashing and messages.
func (v Val) String() string {
	p := kindName(v.K, v.Null) + ":"
	if v.IsNil() {
		return p + "nil"
	}
	switch {
	case v.K == KString:
		return p + fmt.Sprintf("%q", v.S)
	case isIntKind(v.K):
		return p + v.I
	case v.K == KBool:
		return p + fmt.Sprint(v.B)
	case v.K == KTime:
		return p + fmt.Sprintf("%d.%09d%+d", v.Sec, v.Nsec, v.Off)
	case v.K == KBytes:
		return p + fmt.Sprintf("%x", v.Bytes)
	}
	return p + "?"
}

// Go materialises the value with exactly the Go type the kind declares.
func (v Val) Go() any {
	if v.Null && v.UNil {
		return nil
	}
	t := goTypes[v.K]
	if v.Null && v.Nil {
		return reflect.Zero(reflect.PointerTo(t)).Interface()
	}
	rv := reflect.New(t).Elem()
	switch {
	case v.K == KString:
		rv.SetString(v.S)
	case v.K >= KInt && v.K <= KInt64:
		rv.SetInt(v.BigInt().Int64())
	case v.K >= KUint && v.K <= KUint64:
		rv.SetUint(v.BigInt().Uint64())
	case v.K == KBool:
		rv.SetBool(v.B)
	case v.K == KTime:
		rv.Set(reflect.ValueOf(v.Time()))
	case v.K == KBytes:
		if !(v.NilSlice && len(v.Bytes) == 0) {
			b := make([]byte, len(v.Bytes))
			copy(b, v.Bytes)
			rv.SetBytes(b)
		}
	}
	if v.Null {
		p := reflect.New(t)
		p.Elem().Set(rv)
		return p.Interface()
	}
	return rv.Interface()
}

// zeroVal is the zero value the kind reads as when never set.
func zeroVal(k int, null bool) Val {
	v := Val{K: k, Null: null}
	if null {
		v.Nil = true
		return v
	}
	if isIntKind(k) {
		v.I = "0"
	}
	if k == KTime {
		v.Sec = -62135596800
	}
	return v
}

// matchVal compares a value read from the library with a Spec literal using
// value semantics of my own: exact Go type, integers through math/big, strings
// code point by code point, times as instants, byte strings byte for byte,
// nil-ness. An untyped nil is accepted for a nil nullable (the two resource
// implementations legitimately differ there, see C17's statement); strict
// callers pass strictNil.
func matchVal(want Val, got any, strictNil bool) (bool, string) {
	if want.IsNil() {
		if got == nil {
			if strictNil {
				return false, "untyped nil instead of typed nil pointer"
			}
			return true, ""
		}
		rv := reflect.ValueOf(got)
		if rv.Type() != goType(want.K, true) {
			return false, fmt.Sprintf("Go type %T, want %s", got, goType(want.K, true))
		}
		if !rv.IsNil() {
			return false, fmt.Sprintf("non-nil %s, want nil", describeGo(got))
		}
		return true, ""
	}
	if got == nil {
		return false, "nil, want " + want.String()
	}
	rv := reflect.ValueOf(got)
	if rv.Type() != goType(want.K, want.Null) {
		return false, fmt.Sprintf("Go type %T, want %s", got, goType(want.K, want.Null))
	}
	if want.Null {
		if rv.IsNil() {
			return false, "nil pointer, want " + want.String()
		}
		rv = rv.Elem()
	}
	switch {
	case want.K == KString:
		g := rv.String()
		if g != want.S || !sameCodePoints(g, want.S) {
			return false, fmt.Sprintf("string %q, want %q", clip(g, 80), clip(want.S, 80))
		}
	case want.K >= KInt && want.K <= KInt64:
		if big.NewInt(rv.Int()).Cmp(want.BigInt()) != 0 {
			return false, fmt.Sprintf("%d, want %s", rv.Int(), want.I)
		}
	case want.K >= KUint && want.K <= KUint64:
		if new(big.Int).SetUint64(rv.Uint()).Cmp(want.BigInt()) != 0 {
			return false, fmt.Sprintf("%d, want %s", rv.Uint(), want.I)
		}
	case want.K == KBool:
		if rv.Bool() != want.B {
			return false, fmt.Sprintf("%v, want %v", rv.Bool(), want.B)
		}
	case want.K == KTime:
		t := rv.Interface().(time.Time)
		if t.Unix() != want.Sec || t.Nanosecond() != want.Nsec {
			return false, fmt.Sprintf("instant %d.%09d, want %d.%09d", t.Unix(), t.Nanosecond(), want.Sec, want.Nsec)
		}
	case want.K == KBytes:
		if !bytes.Equal(rv.Bytes(), want.Bytes) {
			return false, fmt.Sprintf("bytes %x, want %x", clipB(rv.Bytes()), clipB(want.Bytes))
		}
	}
	return true, ""
}

func clipB(b []byte) []byte {
	if len(b) > 40 {
		return b[:40]
	}
	return b
}

func sameCodePoints(a, b string) bool {
	ra, rb := []rune(a), []rune(b)
	if len(ra) != len(rb) {
		return false
	}
	for i := range ra {
		if ra[i] != rb[i] {
			return false
		}
	}
	return utf8.ValidString(a) == utf8.ValidString(b)
}

// valFromGo reads a library value back into a Spec literal (for snapshots).
func valFromGo(k int, null bool, got any) (Val, bool) {
	v := Val{K: k, Null: null}
	if got == nil {
		if !null {
			return v, false
		}
		v.Nil = true
		return v, true
	}
	rv := reflect.ValueOf(got)
	if rv.Type() != goType(k, null) {
		return v, false
	}
	if null {
		if rv.IsNil() {
			v.Nil = true
			return v, true
		}
		rv = rv.Elem()
	}
	switch {
	case k == KString:
		v.S = rv.String()
	case k >= KInt && k <= KInt64:
		v.I = big.NewInt(rv.Int()).String()
	case k >= KUint && k <= KUint64:
		v.I = new(big.Int).SetUint64(rv.Uint()).String()
	case k == KBool:
		v.B = rv.Bool()
	case k == KTime:
		t := rv.Interface().(time.Time)
		v.Sec, v.Nsec = t.Unix(), t.Nanosecond()
		_, off := t.Zone()
		v.Off = off / 60
	case k == KBytes:
		v.Bytes = append([]byte{}, rv.Bytes()...)
	}
	return v, true
}

func describeGo(v any) string {
	if v == nil {
		return "<untyped nil>"
	}
	rv := reflect.ValueOf(v)
	if rv.Kind() == reflect.Ptr {
		if rv.IsNil() {
			return fmt.Sprintf("(%T)(nil)", v)
		}
		return fmt.Sprintf("&%s", describeGo(rv.Elem().Interface()))
	}
	switch x := v.(type) {
	case []byte:
		return fmt.Sprintf("[]byte(%x)", clipB(x))
	case string:
		return fmt.Sprintf("%q", clip(x, 80))
	case time.Time:
		return x.Format(time.RFC3339Nano)
	}
	return clip(fmt.Sprintf("%T(%v)", v, v), 120)
}

// ---- type / schema / resource specs

type AttrSpec struct {
	Name string `json:"name"`
	Kind int    `json:"kind"`
	Null bool   `json:"nullable,omitempty"`
}

type RelSpec struct {
	Name    string `json:"name"`
	ToOne   bool   `json:"to_one,omitempty"`
	ToType  string `json:"to_type"`
	ToName  string `json:"to_name,omitempty"`
	FromOne bool   `json:"from_one,omitempty"`
}

type TypeSpec struct {
	Name       string     `json:"name"`
	Wrapped    bool       `json:"wrapped,omitempty"`      // struct-backed (reflect.StructOf + BuildType)
	NilMaps    bool       `json:"nil_maps,omitempty"`     // soft type declared with nil maps when it has no field
	NoFromType bool       `json:"no_from_type,omitempty"` // soft type whose relationships are declared without FromType
	Attrs      []AttrSpec `json:"attrs,omitempty"`
	Rels       []RelSpec  `json:"rels,omitempty"`
}

func (t *TypeSpec) Attr(name string) *AttrSpec {
	for i := range t.Attrs {
		if t.Attrs[i].Name == name {
			return &t.Attrs[i]
		}
	}
	return nil
}

func (t *TypeSpec) Rel(name string) *RelSpec {
	for i := range t.Rels {
		if t.Rels[i].Name == name {
			return &t.Rels[i]
		}
	}
	return nil
}

func (t *TypeSpec) AttrNames() []string {
	out := []string{}
	for _, a := range t.Attrs {
		out = append(out, a.Name)
	}
	sort.Strings(out)
	return out
}

func (t *TypeSpec) RelNames() []string {
	out := []string{}
	for _, a := range t.Rels {
		out = append(out, a.Name)
	}
	sort.Strings(out)
	return out
}

func (t *TypeSpec) FieldNames() []string {
	out := append(t.AttrNames(), t.RelNames()...)
	sort.Strings(out)
	return out
}

type SchemaSpec struct {
	Types []TypeSpec `json:"types"`
}

func (s *SchemaSpec) Type(name string) *TypeSpec {
	for i := range s.Types {
		if s.Types[i].Name == name {
			return &s.Types[i]
		}
	}
	return nil
}

type ResSpec struct {
	Type   string              `json:"type"`
	ID     string              `json:"id"`
	Attrs  map[string]Val      `json:"attrs,omitempty"`
	ToOne  map[string]string   `json:"to_one,omitempty"`
	ToMany map[string][]string `json:"to_many,omitempty"`
	// Only: the resource is a soft resource whose OWN type has just these fields of the schema type (same type name),
	// like what UnmarshalPartialResource returns. nil = all fields.
	Only []string `json:"only,omitempty"`
}

// ownType is the type a resource of spec rs has: the schema type, or its restriction to rs.Only.
func (rs *ResSpec) ownType(t *TypeSpec) *TypeSpec {
	if rs.Only == nil {
		return t
	}
	sub := *t
	sub.Wrapped = false
	sub.Attrs, sub.Rels = nil, nil
	for _, a := range t.Attrs {
		if contains(rs.Only, a.Name) {
			sub.Attrs = append(sub.Attrs, a)
		}
	}
	for _, r := range t.Rels {
		if contains(rs.Only, r.Name) {
			sub.Rels = append(sub.Rels, r)
		}
	}
	return &sub
}

// ---- materialisers

var structCache sync.Map // shape key -> reflect.Type

// structTypeFor builds (once per shape) the Go struct type of a wrapped TypeSpec.
func structTypeFor(t *TypeSpec) reflect.Type {
	var sb strings.Builder
	sb.WriteString(t.Name)
	for _, a := range t.Attrs {
		fmt.Fprintf(&sb, "|a:%s:%d:%v", a.Name, a.Kind, a.Null)
	}
	for _, r := range t.Rels {
		fmt.Fprintf(&sb, "|r:%s:%v:%s:%s", r.Name, r.ToOne, r.ToType, r.ToName)
	}
	key := sb.String()
	if st, ok := structCache.Load(key); ok {
		return st.(reflect.Type)
	}
	fields := []reflect.StructField{{
		Name: "ID", Type: reflect.TypeOf(""),
		Tag: reflect.StructTag(fmt.Sprintf(`json:"id" api:"%s"`, t.Name)),
	}}
	for i, a := range t.Attrs {
		fields = append(fields, reflect.StructField{
			Name: fmt.Sprintf("A%d", i), Type: goType(a.Kind, a.Null),
			Tag: reflect.StructTag(fmt.Sprintf(`json:"%s" api:"attr"`, a.Name)),
		})
	}
	for i, r := range t.Rels {
		ft := reflect.TypeOf([]string{})
		if r.ToOne {
			ft = reflect.TypeOf("")
		}
		tag := "rel," + r.ToType
		if r.ToName != "" {
			tag += "," + r.ToName
		}
		fields = append(fields, reflect.StructField{
			Name: fmt.Sprintf("R%d", i), Type: ft,
			Tag: reflect.StructTag(fmt.Sprintf(`json:"%s" api:"%s"`, r.Name, tag)),
		})
	}
	// The layout is a function of the spec: fields that are not part of the API (no api tag: internal state a real
	// model struct carries) are placed among the tagged ones, and in half of the types the declaration order is
	// not ID, attributes, relationships. Nothing in the library may depend on where a field is declared.
	h := strSeed("layout|" + key)
	lr := NewRNG(h, 7, 11)
	for i, n := 0, int(h%4); i < n; i++ {
		ft := []reflect.Type{reflect.TypeOf(0), reflect.TypeOf(""), reflect.TypeOf([]string{}), reflect.TypeOf(true), reflect.TypeOf(map[string]int{})}[lr.Intn(5)]
		tag := []string{``, `json:"-"`, fmt.Sprintf(`json:"internal_x%d"`, i), `db:"col"`}[lr.Intn(4)]
		at := lr.Intn(len(fields) + 1)
		f := reflect.StructField{Name: fmt.Sprintf("X%d", i), Type: ft, Tag: reflect.StructTag(tag)}
		fields = append(fields[:at], append([]reflect.StructField{f}, fields[at:]...)...)
	}
	if lr.Bool() {
		for i := len(fields) - 1; i > 0; i-- {
			j := lr.Intn(i + 1)
			fields[i], fields[j] = fields[j], fields[i]
		}
	}
	st := reflect.StructOf(fields)
	structCache.Store(key, st)
	return st
}

// buildType materialises a TypeSpec as a library Type (soft or struct-backed).
func buildType(t *TypeSpec) jsonapi.Type {
	if t.Wrapped {
		st := structTypeFor(t)
		return jsonapi.MustBuildType(reflect.New(st).Interface())
	}
	typ := jsonapi.Type{Name: t.Name}
	if !(t.NilMaps && len(t.Attrs) == 0) {
		typ.Attrs = map[string]jsonapi.Attr{}
	}
	if !(t.NilMaps && len(t.Rels) == 0) {
		typ.Rels = map[string]jsonapi.Rel{}
	}
	for _, a := range t.Attrs {
		typ.Attrs[a.Name] = jsonapi.Attr{Name: a.Name, Type: a.Kind, Nullable: a.Null}
	}
	for _, r := range t.Rels {
		typ.Rels[r.Name] = jsonapi.Rel{FromType: t.Name, FromName: r.Name, ToOne: r.ToOne, ToType: r.ToType, ToName: r.ToName, FromOne: r.FromOne}
		if t.NoFromType {
			rel := typ.Rels[r.Name]
			rel.FromType = ""
			typ.Rels[r.Name] = rel
		}
	}
	return typ
}

// buildSchema materialises a schema spec. "The same schema" can be reached through different edit
// histories, so the way it is built varies with the spec (deterministically): straight AddType calls, or
// with a decoy type that is looked up and removed again before the last type is added (the type count is
// then the same before and after), or with the first type removed and added again after lookups. The
// resulting schema always holds exactly the spec's types.
// buildSchemaPlain adds the types in order and does nothing else: the schema has never been looked at when it is
// returned (used by C12's cold-start phase, where the first use has to be the concurrent one).
func buildSchemaPlain(s *SchemaSpec) *jsonapi.Schema {
	sc := &jsonapi.Schema{}
	for i := range s.Types {
		if err := sc.AddType(buildType(&s.Types[i])); err != nil {
			panic("harness: AddType: " + err.Error())
		}
	}
	return sc
}

// useWithDecoyField temporarily adds a field "zz-decoy-attr" to every type that has attribute storage, parses URLs
// against the schema while it is there (collection URLs with the default sorting, with a sort, field selection and
// include), and removes it again. The schema ends up as the spec describes it; anything the library remembered from
// the intermediate state (memoised default sorting rules, field lists, per-schema caches) is stale afterwards.
func useWithDecoyField(s *SchemaSpec, sc *jsonapi.Schema) {
	var used []string
	for i := range s.Types {
		t := &s.Types[i]
		if t.NilMaps || (len(t.Attrs) == 0 && !t.Wrapped) {
			continue
		}
		if err := sc.AddAttr(t.Name, jsonapi.Attr{Name: "zz-decoy-attr", Type: jsonapi.AttrTypeString}); err == nil {
			used = append(used, t.Name)
		}
	}
	func() {
		defer func() { _ = recover() }()
		for i := range s.Types {
			n := url.PathEscape(s.Types[i].Name)
			_, _ = jsonapi.NewURLFromRaw(sc, "/"+n)
			_, _ = jsonapi.NewURLFromRaw(sc, "/"+n+"?sort=zz-decoy-attr&fields%5B"+url.QueryEscape(s.Types[i].Name)+"%5D=zz-decoy-attr")
			_, _ = jsonapi.NewURLFromRaw(sc, "/"+n+"/x")
		}
	}()
	for _, n := range used {
		sc.RemoveAttr(n, "zz-decoy-attr")
	}
}

func buildSchema(s *SchemaSpec) *jsonapi.Schema {
	sc := buildSchemaHistory(s)
	if n := len(s.Types); n > 0 && strSeed(s.Types[n-1].Name+fmt.Sprint(len(s.Types[0].Rels), n))%3 == 0 {
		useWithDecoyField(s, sc)
	}
	return sc
}

// useTypes runs the entry points that look types up (full and partial unmarshaling, URL parsing) for the named types.
func useTypes(sc *jsonapi.Schema, names []string) {
	defer func() { _ = recover() }()
	for _, n := range names {
		body := []byte(fmt.Sprintf(`{"type":%q,"id":"x"}`, n))
		_, _ = jsonapi.UnmarshalPartialResource(body, sc)
		_, _ = jsonapi.UnmarshalResource(body, sc)
		_, _ = jsonapi.UnmarshalDocument([]byte(`{"data":`+string(body)+`}`), sc)
		_, _ = jsonapi.NewURLFromRaw(sc, "/"+url.PathEscape(n))
	}
}

func buildSchemaHistory(s *SchemaSpec) *jsonapi.Schema {
	sc := &jsonapi.Schema{}
	add := func(t *TypeSpec) {
		if err := sc.AddType(buildType(t)); err != nil {
			panic("harness: AddType: " + err.Error())
		}
	}
	lookups := func() {
		for i := range s.Types {
			_ = sc.HasType(s.Types[i].Name)
			_ = sc.GetType(s.Types[i].Name)
		}
		_ = sc.HasType("zz-decoy")
		_ = sc.GetType("zz-decoy")
	}
	n := len(s.Types)
	variant := 0
	if n > 0 {
		variant = int(strSeed(s.Types[0].Name+fmt.Sprint(n, len(s.Types[0].Attrs), len(s.Types[n-1].Rels))) % 4)
	}
	switch {
	case n == 0 || variant == 0:
		for i := range s.Types {
			add(&s.Types[i])
		}
	case variant == 1:
		// decoys in the last slot while the schema is used - one of them under the NAME of the real last type but
		// with another definition - then replaced by the real last type
		for i := 0; i < n-1; i++ {
			add(&s.Types[i])
		}
		if err := sc.AddType(jsonapi.Type{Name: "zz-decoy"}); err != nil {
			panic("harness: " + err.Error())
		}
		last := s.Types[n-1].Name
		if err := sc.AddType(jsonapi.Type{Name: last, Attrs: map[string]jsonapi.Attr{"zz-decoy-attr": {Name: "zz-decoy-attr", Type: jsonapi.AttrTypeBool}},
			Rels: map[string]jsonapi.Rel{"zz-decoy-rel": {FromType: last, FromName: "zz-decoy-rel", ToType: last}}}); err != nil {
			panic("harness: " + err.Error())
		}
		lookups()
		useTypes(sc, []string{last, "zz-decoy"})
		sc.RemoveType("zz-decoy")
		sc.RemoveType(last)
		add(&s.Types[n-1])
	case variant == 2:
		// first type removed and added again after the schema was used (it ends up last)
		for i := range s.Types {
			add(&s.Types[i])
		}
		lookups()
		if n > 1 {
			useTypes(sc, []string{s.Types[0].Name})
			sc.RemoveType(s.Types[0].Name)
			add(&s.Types[0])
		}
	default:
		// decoy first, removed in the middle of the build
		if err := sc.AddType(jsonapi.Type{Name: "zz-decoy"}); err != nil {
			panic("harness: " + err.Error())
		}
		for i := range s.Types {
			add(&s.Types[i])
			if i == 0 {
				lookups()
				sc.RemoveType("zz-decoy")
			}
		}
		lookups()
	}
	return sc
}

// newResource creates a resource of the spec'd type: a Wrapper around a fresh
// struct for wrapped types, a SoftResource otherwise.
func newResource(t *TypeSpec) jsonapi.Resource {
	if t.Wrapped {
		return jsonapi.Wrap(reflect.New(structTypeFor(t)).Interface())
	}
	typ := buildType(t)
	return &jsonapi.SoftResource{Type: &typ}
}

// buildWrappedThroughPointer wraps a pointer to a ZERO struct first and fills the struct afterwards through the
// pointer (the way json.Unmarshal or a database scan fill a struct the caller has already wrapped), not through Set.
func buildWrappedThroughPointer(t *TypeSpec, rs *ResSpec) jsonapi.Resource {
	st := structTypeFor(t)
	pv := reflect.New(st)
	w := jsonapi.Wrap(pv.Interface())
	ev := pv.Elem()
	ev.FieldByName("ID").SetString(rs.ID)
	for i, a := range t.Attrs {
		if v, ok := rs.Attrs[a.Name]; ok {
			if g := v.Go(); g != nil {
				ev.FieldByName(fmt.Sprintf("A%d", i)).Set(reflect.ValueOf(g))
			}
		}
	}
	for i, r := range t.Rels {
		f := ev.FieldByName(fmt.Sprintf("R%d", i))
		if r.ToOne {
			if v, ok := rs.ToOne[r.Name]; ok {
				f.SetString(v)
			}
		} else if v, ok := rs.ToMany[r.Name]; ok {
			f.Set(reflect.ValueOf(append([]string{}, v...)))
		}
	}
	return w
}

// buildResource materialises a ResSpec.
func buildResource(t *TypeSpec, rs *ResSpec) jsonapi.Resource {
	res := newResource(t)
	res.Set("id", rs.ID)
	for _, a := range t.Attrs {
		if v, ok := rs.Attrs[a.Name]; ok {
			res.Set(a.Name, v.Go())
		}
	}
	for _, r := range t.Rels {
		if r.ToOne {
			if v, ok := rs.ToOne[r.Name]; ok {
				res.Set(r.Name, v)
			}
		} else if v, ok := rs.ToMany[r.Name]; ok {
			res.Set(r.Name, append([]string{}, v...))
		}
	}
	return res
}

// wantAttr is the value the spec says attribute a of rs holds.
func (rs *ResSpec) wantAttr(a AttrSpec) Val {
	if v, ok := rs.Attrs[a.Name]; ok {
		return v
	}
	return zeroVal(a.Kind, a.Null)
}

func sortedCopy(in []string) []string {
	out := append([]string{}, in...)
	sort.Strings(out)
	return out
}

func sameSet(a, b []string) bool {
	x, y := sortedCopy(a), sortedCopy(b)
	if len(x) != len(y) {
		return false
	}
	for i := range x {
		if x[i] != y[i] {
			return false
		}
	}
	return true
}

func sameSeq(a, b []string) bool {
	if len(a) != len(b) {
		return false
	}
	for i := range a {
		if a[i] != b[i] {
			return false
		}
	}
	return true
}

func contains(ss []string, s string) bool {
	for _, x := range ss {
		if x == s {
			return true
		}
	}
	return false
}

func dedup(ss []string) []string {
	seen := map[string]bool{}
	out := []string{}
	for _, s := range ss {
		if !seen[s] {
			seen[s] = true
			out = append(out, s)
		}
	}
	return out
}

// compareResource checks a resource read from the library against a ResSpec,
// field by field, restricted to `fields` when non-nil. Returns clause + message.
func compareResource(t *TypeSpec, want *ResSpec, got jsonapi.Resource, fields []string, strictNil bool) (string, string) {
	if got == nil {
		return "nil-resource", "nil resource"
	}
	if n := got.GetType().Name; n != t.Name {
		return "type-name", fmt.Sprintf("type name %q, want %q", n, t.Name)
	}
	id, ok := got.Get("id").(string)
	if !ok || id != want.ID {
		return "id", fmt.Sprintf("id %q, want %q", id, want.ID)
	}
	for _, a := range t.Attrs {
		if fields != nil && !contains(fields, a.Name) {
			continue
		}
		if ok, msg := matchVal(want.wantAttr(a), got.Get(a.Name), strictNil); !ok {
			return "attr/" + kindName(a.Kind, a.Null), fmt.Sprintf("attribute %q (%s): %s", a.Name, kindName(a.Kind, a.Null), msg)
		}
	}
	for _, r := range t.Rels {
		if fields != nil && !contains(fields, r.Name) {
			continue
		}
		if r.ToOne {
			g, ok := got.Get(r.Name).(string)
			if !ok || g != want.ToOne[r.Name] {
				return "to-one", fmt.Sprintf("to-one %q: %v, want %q", r.Name, got.Get(r.Name), want.ToOne[r.Name])
			}
		} else {
			g, ok := got.Get(r.Name).([]string)
			if !ok || !sameSet(g, want.ToMany[r.Name]) {
				return "to-many", fmt.Sprintf("to-many %q: %v, want set %v", r.Name, got.Get(r.Name), want.ToMany[r.Name])
			}
		}
	}
	return "", ""
}
