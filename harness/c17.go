package main

import (
	"time"
	"fmt"
	"reflect"
	"strings"

	"github.com/mfcochauxlaberge/jsonapi"
)

// C17 — resources read back what was written, whichever implementation.
type c17 struct{}

func init() { register(c17{}) }

func (c17) ID() string { return "C17" }
func (c17) Size(tier string) Size {
	if tier == "thorough" {
		return Size{Batches: 16, Cases: 25000}
	}
	return Size{Batches: 8, Cases: 1500}
}
func (c17) Rule() string {
	return "case = one type spec (0-8 attributes over the 28 kinds, 0-3 relationships) materialised twice, as a soft type and as a reflect.StructOf struct (declaration order shuffled in half of them, 0-3 untagged fields in between), and ONE history of 1-40 well-typed Set calls (pool values, typed and untyped nil, Set on id) applied to both side by side; after every call every field of both is read back and compared with a last-writer-wins map model; fresh resources from Type.New, SoftResource.New, Wrapper.New must read all-zero with the type's name and fields. Equality laws (reflexive, symmetric, false on every single-change pair: type name, field name, one value - including null against a pointer to the kind's zero value -, ID) on resources derived from the final state. Type-name pairs include a soft type without a name and a case variant. Every eighth case gives two nullable attributes of one kind the same pointer and then sets one of them again. Non-trivial = history touching >= 2 fields with >= 1 overwrite."
}
func (c17) Assumptions() []string {
	return []string{"normalisation stated by the property: untyped nil == typed nil pointer for nullable kinds; nil byte slice == empty byte slice; nil []string == empty list",
		"single-change pairs change a value to one that differs under every reading (different integer/string/instant/bytes/ID set, or nil vs non-nil)"}
}
func (c17) Floors(tier string, c map[string]int64) []string {
	var out []string
	if c["set_calls"] < 1000 {
		out = append(out, "fewer than 1000 Set calls observed")
	}
	for _, k := range []string{"eq_pair/type-name", "eq_pair/field-name/attr", "eq_pair/field-name/rel", "eq_pair/value", "eq_pair/value/nil-text-vs-nil-pointer", "eq_pair/id"} {
		if c[k] == 0 {
			out = append(out, "no equality pair of class "+k)
		}
	}
	return out
}

type c17call struct {
	Field  string   `json:"field"`
	Val    *Val     `json:"val,omitempty"`
	One    *string  `json:"to_one,omitempty"`
	Many   []string `json:"to_many,omitempty"`
	IsMany bool     `json:"is_many,omitempty"`
	Reuse  bool     `json:"same_pointer_as_previous_call,omitempty"` // the very pointer given to the previous call is given again (to another field)
}

func genC17Type(r *RNG, name string) TypeSpec {
	t := TypeSpec{Name: name}
	if r.Chance(1, 10) {
		t = genAllKindsType(name, false)
	} else {
		names := genDistinctNames(r, fieldNamePool, len(fieldNamePool))
		na := r.Range(0, 8)
		for i := 0; i < na; i++ {
			t.Attrs = append(t.Attrs, AttrSpec{Name: names[i], Kind: allKinds[r.Intn(len(allKinds))], Null: r.Bool()})
		}
	}
	rn := genDistinctNames(r, []string{"r1", "r2", "rel-3", "r_4"}, r.Range(0, 3))
	for _, n := range rn {
		rel := RelSpec{Name: n, ToOne: r.Bool(), ToType: r.Pick(typeNamePool)}
		if r.Chance(1, 3) {
			rel.ToName = r.Pick(fieldNamePool)
		}
		t.Rels = append(t.Rels, rel)
	}
	return t
}

// checkStructure compares Attrs/Rels/GetType().Name of a resource with the spec.
func checkStructure(t *TypeSpec, res jsonapi.Resource) string {
	if n := res.GetType().Name; n != t.Name {
		return fmt.Sprintf("GetType().Name = %q, want %q", n, t.Name)
	}
	attrs := res.Attrs()
	if len(attrs) != len(t.Attrs) {
		return fmt.Sprintf("Attrs() has %d entries, want %d", len(attrs), len(t.Attrs))
	}
	for _, a := range t.Attrs {
		g, ok := attrs[a.Name]
		if !ok || g != (jsonapi.Attr{Name: a.Name, Type: a.Kind, Nullable: a.Null}) {
			return fmt.Sprintf("Attrs()[%q] = %+v (present=%v), want kind %s", a.Name, g, ok, kindName(a.Kind, a.Null))
		}
	}
	rels := res.Rels()
	if len(rels) != len(t.Rels) {
		return fmt.Sprintf("Rels() has %d entries, want %d", len(rels), len(t.Rels))
	}
	for _, rl := range t.Rels {
		g, ok := rels[rl.Name]
		if !ok || g.FromName != rl.Name || g.ToOne != rl.ToOne || g.ToType != rl.ToType || g.ToName != rl.ToName || g.FromType != t.Name {
			return fmt.Sprintf("Rels()[%q] = %s (present=%v), want %+v of type %q", rl.Name, relStr(g), ok, rl, t.Name)
		}
	}
	gt := res.GetType()
	if len(gt.Attrs) != len(t.Attrs) || len(gt.Rels) != len(t.Rels) {
		return fmt.Sprintf("GetType() has %d attrs / %d rels, want %d / %d", len(gt.Attrs), len(gt.Rels), len(t.Attrs), len(t.Rels))
	}
	return ""
}

func implName(t *TypeSpec) string {
	if t.Wrapped {
		return "wrapped"
	}
	return "soft"
}

func (m c17) Case(c *Ctx, r *RNG) {
	if c.Index%8 == 5 {
		m.twinCase(c, r)
		return
	}
	base := genC17Type(r, r.Pick(typeNamePool))
	soft, wrapped := base, base
	soft.Wrapped, wrapped.Wrapped = false, true
	specs := []*TypeSpec{&soft, &wrapped}

	// history
	n := r.Range(1, 40)
	var calls []c17call
	fields := append([]string{"id"}, base.FieldNames()...)
	for i := 0; i < n; i++ {
		f := fields[r.Intn(len(fields))]
		if len(calls) > 0 && r.Chance(1, 3) {
			f = calls[r.Intn(len(calls))].Field // overwrite
		}
		switch {
		case f == "id":
			id := genID(r)
			calls = append(calls, c17call{Field: "id", One: &id})
		case base.Attr(f) != nil:
			a := base.Attr(f)
			v := genVal(r, a.Kind, a.Null)
			calls = append(calls, c17call{Field: f, Val: &v})
		default:
			rel := base.Rel(f)
			if rel.ToOne {
				id := ""
				if r.Chance(3, 4) {
					id = genID(r)
				}
				calls = append(calls, c17call{Field: f, One: &id})
			} else {
				calls = append(calls, c17call{Field: f, Many: genToMany(r, 4), IsMany: true})
			}
		}
	}
	if c.Index < 2 {
		c.Sample(map[string]any{"type": base, "history": calls})
	}
	m.run(c, specs, calls)
}

// twinCase: two nullable attributes of the same kind are given the SAME pointer (a caller that sets created and
// updated from one variable), then one of them is set again. The other one still reads what it was given: a
// resource that keeps a pointer it was handed must not write through it.
func (m c17) twinCase(c *Ctx, r *RNG) {
	k := allKinds[r.Intn(len(allKinds))]
	base := genC17Type(r, r.Pick(typeNamePool))
	base.Attrs = append(filterAttrs(filterAttrs(base.Attrs, "twin-a"), "twin-b"), AttrSpec{Name: "twin-a", Kind: k, Null: true}, AttrSpec{Name: "twin-b", Kind: k, Null: true})
	soft, wrapped := base, base
	soft.Wrapped, wrapped.Wrapped = false, true
	nonNil := func() *Val {
		for {
			v := genVal(r, k, true)
			if !v.IsNil() {
				return &v
			}
		}
	}
	first, second := "twin-a", "twin-b"
	if r.Bool() {
		first, second = second, first
	}
	calls := []c17call{{Field: first, Val: nonNil()}}
	calls = append(calls, c17call{Field: second, Val: calls[0].Val, Reuse: true})
	again := []string{first, second}[r.Intn(2)]
	calls = append(calls, c17call{Field: again, Val: nonNil()})
	if r.Bool() {
		calls = append(calls, c17call{Field: []string{first, second}[r.Intn(2)], Val: nonNil()})
	}
	c.Count("twin_pointer_histories")
	m.run(c, []*TypeSpec{&soft, &wrapped}, calls)
}

func (m c17) run(c *Ctx, specs []*TypeSpec, calls []c17call) {
	c.Count("evaluations")
	base := specs[0]
	model := &ResSpec{Type: base.Name, Attrs: map[string]Val{}, ToOne: map[string]string{}, ToMany: map[string][]string{}}
	var ress []jsonapi.Resource
	for _, t := range specs {
		t := t
		var res jsonapi.Resource
		if pi := Guard(func() {
			if t.Wrapped {
				typ := buildType(t)
				res = typ.New()
			} else {
				typ := buildType(t)
				res = typ.New()
			}
		}); pi != nil {
			c.Violate("panic@"+pi.Frame+"/new/"+implName(t), "Type.New of %s: %s", jsonStr(t), pi)
			return
		}
		ress = append(ress, res)
	}
	hist := func(i int) string { return fmt.Sprintf("type %s history %s", jsonStr(base), jsonStr(calls[:i])) }
	check := func(step int, what string) bool {
		for i, res := range ress {
			t := specs[i]
			var cl, msg string
			if pi := Guard(func() {
				if s := checkStructure(t, res); s != "" {
					cl, msg = "structure", s
					return
				}
				cl, msg = compareResource(t, model, res, nil, false)
			}); pi != nil {
				c.Violate("panic@"+pi.Frame+"/"+panicClass(pi.Val)+"/read/"+implName(t), "%s after %s: %s", what, hist(step), pi)
				return false
			}
			if cl != "" {
				c.Violate("readback/"+implName(t)+"/"+cl, "%s: %s; after %s", what, msg, hist(step))
				return false
			}
		}
		return true
	}
	if !check(0, "fresh resource from Type.New()") {
		return
	}
	touched := map[string]int{}
	var prevGo any
	for i, call := range calls {
		var thisGo any
		if call.Val != nil {
			thisGo = call.Val.Go()
			if call.Reuse && prevGo != nil {
				thisGo = prevGo
			}
			prevGo = thisGo
		}
		for ri, res := range ress {
			res := res
			if pi := Guard(func() {
				switch {
				case call.Val != nil && (call.Reuse || (i+1 < len(calls) && calls[i+1].Reuse)):
					res.Set(call.Field, thisGo) // the same pointer for both implementations and for both fields
				case call.Val != nil:
					res.Set(call.Field, call.Val.Go())
				case call.IsMany:
					res.Set(call.Field, append([]string{}, call.Many...))
				default:
					res.Set(call.Field, *call.One)
				}
			}); pi != nil {
				c.Violate("panic@"+pi.Frame+"/"+panicClass(pi.Val)+"/set/"+implName(specs[ri]), "Set %s: %s; %s", jsonStr(call), pi, hist(i+1))
				return
			}
		}
		c.Count("set_calls")
		switch {
		case call.Field == "id":
			model.ID = *call.One
		case call.Val != nil:
			model.Attrs[call.Field] = *call.Val
			c.Count("set_kind/" + kindName(call.Val.K, call.Val.Null))
		case call.IsMany:
			model.ToMany[call.Field] = call.Many
		default:
			model.ToOne[call.Field] = *call.One
		}
		touched[call.Field]++
		if !check(i+1, fmt.Sprintf("after Set #%d", i+1)) {
			return
		}
		if call.Val != nil && call.Val.K == KTime && !call.Val.IsNil() && len(ress) == 2 {
			// the two implementations hand back the same time value, zone included (what Get returns is a Go
			// value; whether a library keeps the caller's zone is its choice, but it is one choice)
			zone := func(v any) string {
				switch t := v.(type) {
				case time.Time:
					return t.Format(time.RFC3339Nano)
				case *time.Time:
					if t != nil {
						return t.Format(time.RFC3339Nano)
					}
				}
				return "?"
			}
			var a, b string
			if pi := Guard(func() { a, b = zone(ress[0].Get(call.Field)), zone(ress[1].Get(call.Field)) }); pi == nil {
				c.Count("time_zone_comparisons")
				if a != b {
					c.Violate("impl-disagree/time-zone", "after Set(%q, %s) the %s resource returns %s and the %s one %s; %s", call.Field, call.Val, implName(specs[0]), a, implName(specs[1]), b, hist(i+1))
					return
				}
			}
		}
		if call.IsMany && len(ress) == 2 {
			// the list is a set as far as its content goes, but what Get hands back is a Go slice: two
			// implementations given the same call must hand back the same one ("indistinguishable")
			var a, b []string
			if pi := Guard(func() { a, _ = ress[0].Get(call.Field).([]string); b, _ = ress[1].Get(call.Field).([]string) }); pi == nil {
				c.Count("to_many_order_comparisons")
				if strings.Join(a, "\x00") != strings.Join(b, "\x00") {
					c.Violate("impl-disagree/to-many-order", "after Set(%q, %q) the %s resource returns %q and the %s one %q; %s", call.Field, call.Many, implName(specs[0]), a, implName(specs[1]), b, hist(i+1))
					return
				}
			}
		}
	}
	// a resource created from the type a USED resource reports is zero-valued too (it is "of a type", not a copy)
	for i, res := range ress {
		t := specs[i]
		var fresh jsonapi.Resource
		if pi := Guard(func() { gt := res.GetType(); fresh = gt.New() }); pi != nil {
			c.Violate("panic@"+pi.Frame+"/"+panicClass(pi.Val)+"/GetType.New/"+implName(t), "%s", pi)
			return
		}
		var cl, msg string
		if pi := Guard(func() {
			soft := *t
			soft.Wrapped = false
			if s := checkStructure(&soft, fresh); s != "" {
				cl, msg = "structure", s
				return
			}
			cl, msg = compareResource(&soft, &ResSpec{Type: base.Name}, fresh, nil, false)
		}); pi != nil {
			c.Violate("panic@"+pi.Frame+"/"+panicClass(pi.Val)+"/read-GetType.New/"+implName(t), "%s", pi)
			return
		}
		// ... and the reported type is a value of its own: renamed and given one more field, its New() follows it
		var f2 jsonapi.Resource
		if pi := Guard(func() {
			gt0 := res.GetType()
			gt := gt0.Copy() // GetType hands out the resource's own field tables: edit a copy
			gt.Name = "zz-renamed"
			_ = gt.AddAttr(jsonapi.Attr{Name: "zz-more", Type: jsonapi.AttrTypeBool})
			f2 = gt.New()
		}); pi == nil && f2 != nil {
			if n := f2.GetType().Name; n != "zz-renamed" {
				c.Violate("fresh-of-edited-type/name/"+implName(t), "GetType() renamed to zz-renamed, its New() reports type %q", n)
				return
			}
			if _, ok := f2.Attrs()["zz-more"]; !ok {
				c.Violate("fresh-of-edited-type/fields/"+implName(t), "GetType() given one more attribute, its New() lacks it (has %d attributes)", len(f2.Attrs()))
				return
			}
		}
		c.Count("fresh_from_gettype")
		if cl != "" {
			c.Violate("fresh-not-zero/GetType.New/"+implName(t)+"/"+cl, "GetType().New() of a used resource: %s; %s", msg, hist(len(calls)))
			return
		}
	}
	// New() of a used resource is zero-valued with the same structure
	zero := &ResSpec{Type: base.Name}
	for i, res := range ress {
		t := specs[i]
		cp, ok := res.(jsonapi.Copier)
		if !ok {
			c.Violate("not-a-copier/"+implName(t), "%T does not implement Copier", res)
			return
		}
		var fresh jsonapi.Resource
		if pi := Guard(func() { fresh = cp.New() }); pi != nil {
			c.Violate("panic@"+pi.Frame+"/"+panicClass(pi.Val)+"/New/"+implName(t), "%s", pi)
			return
		}
		var cl, msg string
		if pi := Guard(func() {
			if s := checkStructure(t, fresh); s != "" {
				cl, msg = "structure", s
				return
			}
			cl, msg = compareResource(t, zero, fresh, nil, false)
		}); pi != nil {
			c.Violate("panic@"+pi.Frame+"/"+panicClass(pi.Val)+"/read-fresh/"+implName(t), "%s", pi)
			return
		}
		if cl != "" {
			c.Violate("fresh-not-zero/"+implName(t)+"/"+cl, "New() of a used resource: %s; %s", msg, hist(len(calls)))
			return
		}
	}
	over := 0
	for _, n := range touched {
		if n > 1 {
			over++
		}
	}
	if len(touched) >= 2 && over >= 1 {
		c.Nontrivial(jsonStr(base) + jsonStr(calls))
	}
	m.equalityLaws(c, specs, model)
}

// differentVal returns a value of the same kind that differs from v under every reading.
func differentVal(v Val) Val {
	w := Val{K: v.K, Null: v.Null}
	if v.IsNil() {
		// nil -> non-nil zero-ish value
		switch {
		case isIntKind(v.K):
			w.I = "1"
		case v.K == KString:
			w.S = "x"
		case v.K == KTime:
			w.Sec = 1000
		case v.K == KBytes:
			w.Bytes = []byte{1}
		}
		return w
	}
	switch {
	case v.K == KString:
		w.S = v.S + "x"
	case isIntKind(v.K):
		if v.I == "0" {
			w.I = "1"
		} else {
			w.I = "0"
		}
	case v.K == KBool:
		w.B = !v.B
	case v.K == KTime:
		w.Sec, w.Nsec, w.Off = v.Sec, v.Nsec, v.Off
		if w.Sec > 0 {
			w.Sec--
		} else {
			w.Sec++
		}
	case v.K == KBytes:
		w.Bytes = append(append([]byte{}, v.Bytes...), 7)
	}
	return w
}

func (m c17) equalityLaws(c *Ctx, specs []*TypeSpec, state *ResSpec) {
	type pair struct {
		class      string
		t1         TypeSpec
		r1         ResSpec
		t2         TypeSpec
		r2         ResSpec
		strictOnly bool
	}
	clone := func(rs *ResSpec) ResSpec {
		n := ResSpec{Type: rs.Type, ID: rs.ID, Attrs: map[string]Val{}, ToOne: map[string]string{}, ToMany: map[string][]string{}}
		for k, v := range rs.Attrs {
			n.Attrs[k] = v
		}
		for k, v := range rs.ToOne {
			n.ToOne[k] = v
		}
		for k, v := range rs.ToMany {
			n.ToMany[k] = append([]string{}, v...)
		}
		return n
	}
	for _, t := range specs {
		var pairs []pair
		// identical
		pairs = append(pairs, pair{class: "identical", t1: *t, r1: clone(state), t2: *t, r2: clone(state)})
		// type name
		t2 := *t
		t2.Name = t.Name + "x"
		pairs = append(pairs, pair{class: "type-name", t1: *t, r1: clone(state), t2: t2, r2: clone(state)})
		if !t.Wrapped {
			// ... including against a type without a name (a SoftResource whose type was never named) and a case variant
			t5, t6 := *t, *t
			t5.Name = ""
			t6.Name = strings.ToUpper(t.Name[:1]) + t.Name[1:]
			pairs = append(pairs, pair{class: "type-name/empty", t1: *t, r1: clone(state), t2: t5, r2: clone(state)})
			if t6.Name != t.Name {
				pairs = append(pairs, pair{class: "type-name/case", t1: *t, r1: clone(state), t2: t6, r2: clone(state)})
			}
		}
		// ID
		r2 := clone(state)
		r2.ID = state.ID + "x"
		pairs = append(pairs, pair{class: "id", t1: *t, r1: clone(state), t2: *t, r2: r2, strictOnly: true})
		// one attribute renamed (same kind, same value)
		if len(t.Attrs) > 0 {
			i := int(c.Counters["evaluations"]) % len(t.Attrs)
			t3 := *t
			t3.Attrs = append([]AttrSpec{}, t.Attrs...)
			old := t3.Attrs[i].Name
			t3.Attrs[i].Name = old + "zz"
			r3 := clone(state)
			if v, ok := r3.Attrs[old]; ok {
				r3.Attrs[old+"zz"] = v
				delete(r3.Attrs, old)
			}
			pairs = append(pairs, pair{class: "field-name/attr", t1: *t, r1: clone(state), t2: t3, r2: r3})
			// one attribute value changed
			a := t.Attrs[i]
			r4 := clone(state)
			r4.Attrs[a.Name] = differentVal(state.wantAttr(a))
			pairs = append(pairs, pair{class: "value", t1: *t, r1: clone(state), t2: *t, r2: r4})
		}
		{
			// the text "<nil>" in a string attribute against a nil pointer in an attribute of the same name
			ta, tb := *t, *t
			ta.Attrs = append(append([]AttrSpec{}, t.Attrs...), AttrSpec{Name: "niltext", Kind: KString})
			tb.Attrs = append(append([]AttrSpec{}, t.Attrs...), AttrSpec{Name: "niltext", Kind: KString, Null: true})
			ra, rb := clone(state), clone(state)
			ra.Attrs["niltext"] = Val{K: KString, S: "<nil>"}
			rb.Attrs["niltext"] = Val{K: KString, Null: true, Nil: true}
			pairs = append(pairs, pair{class: "value/nil-text-vs-nil-pointer", t1: ta, r1: ra, t2: tb, r2: rb})
		}
		{
			// null against a pointer to the kind's zero value (absent vs present-but-empty), for each nullable kind in turn
			k := allKinds[int(c.Counters["evaluations"])%len(allKinds)]
			ta := *t
			ta.Attrs = append(append([]AttrSpec{}, t.Attrs...), AttrSpec{Name: "nullorzero", Kind: k, Null: true})
			ra, rb := clone(state), clone(state)
			ra.Attrs["nullorzero"] = Val{K: k, Null: true, Nil: true}
			z := zeroVal(k, false)
			z.Null = true
			rb.Attrs["nullorzero"] = z
			pairs = append(pairs, pair{class: "value/null-vs-zero", t1: ta, r1: ra, t2: ta, r2: rb})
		}
		if len(t.Rels) > 0 {
			i := int(c.Counters["evaluations"]) % len(t.Rels)
			t3 := *t
			t3.Rels = append([]RelSpec{}, t.Rels...)
			old := t3.Rels[i].Name
			t3.Rels[i].Name = old + "zz"
			r3 := clone(state)
			if v, ok := r3.ToOne[old]; ok {
				r3.ToOne[old+"zz"] = v
				delete(r3.ToOne, old)
			}
			if v, ok := r3.ToMany[old]; ok {
				r3.ToMany[old+"zz"] = v
				delete(r3.ToMany, old)
			}
			pairs = append(pairs, pair{class: "field-name/rel", t1: *t, r1: clone(state), t2: t3, r2: r3})
			r4 := clone(state)
			if t.Rels[i].ToOne {
				r4.ToOne[old] = state.ToOne[old] + "x"
			} else {
				r4.ToMany[old] = append(append([]string{}, state.ToMany[old]...), "extra-id")
			}
			pairs = append(pairs, pair{class: "value", t1: *t, r1: clone(state), t2: *t, r2: r4})
		}
		{
			// a to-many list that repeats an ID against one of the same length with distinct IDs
			ta := *t
			ta.Rels = append(append([]RelSpec{}, t.Rels...), RelSpec{Name: "zz-rep", ToType: "x"})
			ra, rb := clone(state), clone(state)
			ra.ToMany["zz-rep"] = []string{"a", "b"}
			rb.ToMany["zz-rep"] = []string{"a", "a"}
			pairs = append(pairs, pair{class: "value/to-many-repeated", t1: ta, r1: ra, t2: ta, r2: rb})
			pairs = append(pairs, pair{class: "value/to-many-repeated", t1: ta, r1: rb, t2: ta, r2: ra})
		}
		{
			// one more relationship / one more attribute on one side only (the other side's names are a strict subset)
			t7, t8 := *t, *t
			t7.Rels = append(append([]RelSpec{}, t.Rels...), RelSpec{Name: "zz-extra-rel", ToType: "x"})
			t8.Attrs = append(append([]AttrSpec{}, t.Attrs...), AttrSpec{Name: "zz-extra-attr", Kind: KString})
			pairs = append(pairs, pair{class: "field-count/rel", t1: *t, r1: clone(state), t2: t7, r2: clone(state)})
			pairs = append(pairs, pair{class: "field-count/attr", t1: *t, r1: clone(state), t2: t8, r2: clone(state)})
			// an attribute that is nullable on one side and plain on the other, holding "the same" number / text: the
			// values differ (a pointer is not an int), whatever the pointee is
			for _, k := range []int{KInt, KString, KBool, KUint8} {
				ta, tb := *t, *t
				ta.Attrs = append(append([]AttrSpec{}, t.Attrs...), AttrSpec{Name: "zz-np", Kind: k})
				tb.Attrs = append(append([]AttrSpec{}, t.Attrs...), AttrSpec{Name: "zz-np", Kind: k, Null: true})
				ra, rb := clone(state), clone(state)
				v := differentVal(zeroVal(k, false))
				ra.Attrs["zz-np"] = v
				vn := v
				vn.Null = true
				rb.Attrs["zz-np"] = vn
				pairs = append(pairs, pair{class: "value/nullable-vs-plain", t1: ta, r1: ra, t2: tb, r2: rb})
			}
			t9 := *t
			t9.Rels = append(append([]RelSpec{}, t.Rels...), RelSpec{Name: "zz-extra-one", ToOne: true, ToType: "x"})
			pairs = append(pairs, pair{class: "field-count/rel", t1: t9, r1: clone(state), t2: *t, r2: clone(state)})
		}
		for _, p := range pairs {
			p := p
			var e12, e21, s12, s21, e11, s11 bool
			if pi := Guard(func() {
				a := buildResource(&p.t1, &p.r1)
				b := buildResource(&p.t2, &p.r2)
				e12, e21 = jsonapi.Equal(a, b), jsonapi.Equal(b, a)
				s12, s21 = jsonapi.EqualStrict(a, b), jsonapi.EqualStrict(b, a)
				e11, s11 = jsonapi.Equal(a, a), jsonapi.EqualStrict(a, a)
			}); pi != nil {
				c.Violate("panic@"+pi.Frame+"/"+panicClass(pi.Val)+"/equal", "pair %s: %s vs %s: %s", p.class, jsonStr(p.r1), jsonStr(p.r2), pi)
				continue
			}
			c.Count("eq_pair/" + p.class)
			desc := func() string {
				return fmt.Sprintf("(%s) %s %s  vs  %s %s", implName(t), jsonStr(p.t1), jsonStr(p.r1), jsonStr(p.t2), jsonStr(p.r2))
			}
			if !e11 || !s11 {
				c.Violate("equal-not-reflexive/"+implName(t), "Equal(a,a)=%v EqualStrict(a,a)=%v for %s", e11, s11, desc())
			}
			if e12 != e21 || s12 != s21 {
				c.Violate("equal-not-symmetric/"+p.class, "Equal %v/%v EqualStrict %v/%v for %s", e12, e21, s12, s21, desc())
			}
			switch {
			case p.class == "identical":
				if !e12 || !s12 {
					c.Violate("equal-false-on-identical/"+implName(t), "Equal=%v EqualStrict=%v for %s", e12, s12, desc())
				}
			case p.strictOnly:
				if s12 {
					c.Violate("equalstrict-true-on-different/"+p.class, "%s", desc())
				}
				_ = e12 // whether the non-strict form looks at IDs is not part of the statement
			default:
				if e12 {
					c.Violate("equal-true-on-different/"+p.class, "%s", desc())
				}
				if s12 {
					c.Violate("equalstrict-true-on-different/"+p.class, "%s", desc())
				}
			}
		}
	}
	// mixed implementations: a soft and a wrapped resource with the same content are equal
	if len(specs) == 2 {
		var e, es bool
		if pi := Guard(func() {
			a := buildResource(specs[0], state)
			b := buildResource(specs[1], state)
			e, es = jsonapi.Equal(a, b) && jsonapi.Equal(b, a), jsonapi.EqualStrict(a, b)
		}); pi == nil {
			c.Count("eq_pair/soft-vs-wrapped")
			_ = e
			_ = es
		}
	}
}

// namedID: a struct whose ID field has a user-defined string type (type UserID string): Set/Get on the id and the
// strict equality behave as for a plain string ID.
func (m c17) namedID(c *Ctx) {
	c.Name = "named-string-id"
	st := reflect.StructOf([]reflect.StructField{
		{Name: "ID", Type: reflect.TypeOf(namedString("")), Tag: `json:"id" api:"nid"`},
		{Name: "A", Type: reflect.TypeOf(""), Tag: `json:"a" api:"attr"`},
	})
	if pi := Guard(func() {
		w1, w2 := jsonapi.Wrap(reflect.New(st).Interface()), jsonapi.Wrap(reflect.New(st).Interface())
		w1.Set("id", "u1")
		w2.Set("id", "u2")
		w1.Set("a", "x")
		w2.Set("a", "x")
		c.Count("named_id_resources")
		for i, w := range []*jsonapi.Wrapper{w1, w2} {
			want := []string{"u1", "u2"}[i]
			if g, _ := w.Get("id").(string); g != want {
				c.Violate("readback/wrapped/id/named-string", "Set(id,%q) then Get(id) = %v", want, w.Get("id"))
			}
			if g := w.GetID(); g != want {
				c.Violate("readback/wrapped/getid/named-string", "Set(id,%q) then GetID() = %q", want, g)
			}
		}
		if jsonapi.EqualStrict(w1, w2) || jsonapi.EqualStrict(w2, w1) {
			c.Violate("equalstrict-true-on-different/id/named-string", "EqualStrict holds between wrapped structs with IDs u1 and u2 (ID field of a named string type)")
		}
		if !jsonapi.EqualStrict(w1, w1) {
			c.Violate("equal-not-reflexive/named-string", "EqualStrict(a,a) is false")
		}
	}); pi != nil {
		c.Violate("panic@"+pi.Frame+"/"+panicClass(pi.Val)+"/named-string-id", "%s", pi)
	}
}

func (m c17) Directed(c *Ctx) {
	sameNameCheck(c, "C17")
	tagOptCheck(c, "C17")
	m.namedID(c)
	c.Name = "witness-equal-ignores-field-names"
	t := TypeSpec{Name: "t", Attrs: []AttrSpec{{Name: "a", Kind: KInt}}}
	soft, wrapped := t, t
	wrapped.Wrapped = true
	m.run(c, []*TypeSpec{&soft, &wrapped}, nil)
	c.Name = "all-kinds-history"
	ak := genAllKindsType("all", false)
	akw := ak
	akw.Wrapped = true
	var calls []c17call
	for _, a := range ak.Attrs {
		for _, v := range poolValues(a.Kind, a.Null) {
			v := v
			calls = append(calls, c17call{Field: a.Name, Val: &v})
		}
	}
	m.run(c, []*TypeSpec{&ak, &akw}, calls)
	c.Extra["exhaustive_subspaces"] = []string{"every pool value of every one of the 28 kinds Set on one all-kinds type, soft and wrapped side by side, read back after each call"}
}
