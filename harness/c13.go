package main

import (
	"encoding/json"
	"fmt"
	"strings"

	"github.com/mfcochauxlaberge/jsonapi"
)

// C13 — partial unmarshaling reports exactly the fields present.
type c13 struct{}

func init() { register(c13{}) }

func (c13) ID() string { return "C13" }
func (c13) Size(tier string) Size {
	if tier == "thorough" {
		return Size{Batches: 32, Cases: 4000}
	}
	return Size{Batches: 16, Cases: 1500}
}
func (c13) Rule() string {
	return "case = random type (soft or struct-backed) + resource payloads in which a random SUBSET of its attributes and relationships is present (every subset enumerated for a 7-field type in the directed part), relationships present with only links/meta and no data, explicit null values and null data, mostly valid and sometimes invalid literals, plus kind-mutated payloads; the same bytes go through UnmarshalPartialResource and UnmarshalResource. Oracle: accepted by one iff accepted by the other; on acceptance the partial resource's type name is the schema type's, Attrs() keys == the payload's attribute names and Rels() keys == the relationship members carrying a data member (both read by my own JSON walk), each definition equals the schema's, each value equals what full unmarshaling gives, Get of an absent field is nil. One payload in four is followed (some preceded) by further bytes: white space only is still JSON, anything else is not, for both paths alike. Non-trivial = payload with a proper non-empty subset of the type's fields; distinct = payload hash."
}
func (c13) Assumptions() []string {
	return []string{"'carries a data member' includes an explicit null", "values are compared through my Val reader (untyped nil == typed nil pointer)"}
}
func (c13) Floors(tier string, c map[string]int64) []string {
	var out []string
	for _, k := range []string{"both_accept", "both_reject", "proper_subset", "rel_without_data", "rel_null_data", "attr_null", "impl/soft", "impl/wrapped"} {
		if c[k] == 0 {
			out = append(out, "never observed: "+k)
		}
	}
	return out
}

func (m c13) run(c *Ctx, t *TypeSpec, data []byte) {
	c.Count("evaluations")
	c.Count("impl/" + implName(t))
	desc := func() string { return clip(string(data), 1200) + " against " + clip(jsonStr(t), 700) }
	var schema *jsonapi.Schema
	var part *jsonapi.SoftResource
	var full jsonapi.Resource
	var perr, ferr error
	if pi := Guard(func() {
		schema = buildSchema(&SchemaSpec{Types: []TypeSpec{*t}})
		part, perr = jsonapi.UnmarshalPartialResource(data, schema)
	}); pi != nil {
		c.Violate("panic@"+pi.Frame+"/"+panicClass(pi.Val)+"/UnmarshalPartialResource", "%s; %s", pi, desc())
		return
	}
	if pi := Guard(func() { full, ferr = jsonapi.UnmarshalResource(data, schema) }); pi != nil {
		c.Violate("panic@"+pi.Frame+"/"+panicClass(pi.Val)+"/UnmarshalResource", "%s; %s", pi, desc())
		return
	}
	if (perr == nil) != (ferr == nil) {
		who := "partial-accepts-full-rejects"
		if perr != nil {
			who = "full-accepts-partial-rejects"
		}
		c.Violate("acceptance-differs/"+who, "partial err=%v, full err=%v; %s", perr, ferr, desc())
		return
	}
	if perr != nil {
		c.Count("both_reject")
		if part != nil {
			c.Violate("result-and-error", "%s", desc())
		}
		return
	}
	c.Count("both_accept")
	if part == nil || full == nil {
		c.Violate("nil-result", "%s", desc())
		return
	}
	root, jerr := parseJV(data)
	if jerr != nil || root.Kind != 'o' {
		c.Violate("accepted-non-object", "%s", desc())
		return
	}
	// my own reading of which fields are present (last duplicate member wins, like a map)
	last := func(v *JV, k string) *JV {
		var out *JV
		if v != nil && v.Kind == 'o' {
			for i, kk := range v.Keys {
				if kk == k {
					out = v.Vals[i]
				}
			}
		}
		return out
	}
	wantAttrs, wantRels := []string{}, []string{}
	if a := last(root, "attributes"); a != nil && a.Kind == 'o' {
		wantAttrs = dedup(a.Keys)
	}
	if rs := last(root, "relationships"); rs != nil && rs.Kind == 'o' {
		for _, k := range dedup(rs.Keys) {
			if last(last(rs, k), "data") != nil {
				wantRels = append(wantRels, k)
			}
		}
	}
	var problem, cls string
	if pi := Guard(func() {
		if n := part.GetType().Name; n != t.Name {
			cls, problem = "type-name", fmt.Sprintf("partial resource has type %q, schema type is %q", n, t.Name)
			return
		}
		gotAttrs, gotRels := part.Attrs(), part.Rels()
		if !sameSet(sortedKeys(gotAttrs), wantAttrs) {
			cls, problem = "attrs-differ", fmt.Sprintf("Attrs() = %v, the payload's attributes object has %v", sortedKeys(gotAttrs), sortedCopy(wantAttrs))
			if len(gotAttrs) > len(wantAttrs) {
				cls = "attrs-extra"
			}
			return
		}
		if !sameSet(sortedKeys(gotRels), wantRels) {
			cls, problem = "rels-differ", fmt.Sprintf("Rels() = %v, relationship members with data: %v", sortedKeys(gotRels), sortedCopy(wantRels))
			if len(gotRels) > len(wantRels) {
				cls = "rels-extra"
			}
			return
		}
		st := schema.GetType(t.Name)
		for n, a := range gotAttrs {
			if a != st.Attrs[n] {
				cls, problem = "definition-differs", fmt.Sprintf("attribute %q is defined as %+v, the schema says %+v", n, a, st.Attrs[n])
				return
			}
			as := t.Attr(n)
			pv, ok1 := valFromGo(as.Kind, as.Null, part.Get(n))
			fv, ok2 := valFromGo(as.Kind, as.Null, full.Get(n))
			if !ok1 || !ok2 || pv.String() != fv.String() {
				cls, problem = "value-differs/attr", fmt.Sprintf("attribute %q: partial %s, full %s", n, describeGo(part.Get(n)), describeGo(full.Get(n)))
				return
			}
		}
		for n, rl := range gotRels {
			if rl != st.Rels[n] {
				cls, problem = "definition-differs", fmt.Sprintf("relationship %q is defined as %s, the schema says %s", n, relStr(rl), relStr(st.Rels[n]))
				return
			}
			if fmt.Sprintf("%#v", part.Get(n)) != fmt.Sprintf("%#v", full.Get(n)) {
				if l1, ok := part.Get(n).([]string); !(ok && len(l1) == 0 && fmt.Sprint(full.Get(n)) == "[]") {
					cls, problem = "value-differs/rel", fmt.Sprintf("relationship %q: partial %#v, full %#v", n, part.Get(n), full.Get(n))
					return
				}
			}
		}
		for _, f := range t.FieldNames() {
			if !contains(wantAttrs, f) && !contains(wantRels, f) {
				if g := part.Get(f); g != nil {
					cls, problem = "absent-field-not-nil", fmt.Sprintf("Get(%q) = %s although the payload does not carry the field", f, describeGo(g))
					return
				}
			}
		}
		pid, _ := part.Get("id").(string)
		fid, _ := full.Get("id").(string)
		if pid != fid {
			cls, problem = "id-differs", fmt.Sprintf("partial id %q, full id %q", pid, fid)
		}
	}); pi != nil {
		c.Violate("panic@"+pi.Frame+"/"+panicClass(pi.Val)+"/reading", "%s; %s", pi, desc())
		return
	}
	if problem != "" {
		c.Violate(cls, "%s; %s", problem, desc())
		return
	}
	n := len(wantAttrs) + len(wantRels)
	if n > 0 && n < len(t.FieldNames()) {
		c.Count("proper_subset")
		c.Nontrivial(string(data) + jsonStr(t))
	}
}

func validLiteral(r *RNG, a AttrSpec) string {
	v := genVal(r, a.Kind, a.Null)
	if v.IsNil() {
		return "null"
	}
	switch {
	case a.Kind == KString:
		b, _ := json.Marshal(v.S)
		return string(b)
	case isIntKind(a.Kind):
		return v.I
	case a.Kind == KBool:
		return fmt.Sprint(v.B)
	case a.Kind == KTime:
		b, _ := json.Marshal(v.Time())
		return string(b)
	default:
		return `"` + encodeBase64(v.Bytes) + `"`
	}
}

func (m c13) Case(c *Ctx, r *RNG) {
	s := genSchema(r, genOpts{MaxTypes: 1, MaxAttrs: 5, MaxRels: 3, AllowWrap: true})
	t := s.Types[0]
	for rep := 0; rep < 8; rep++ {
		p := &c06payload{Type: t, ID: genID(r), Attrs: map[string]string{}, Rels: map[string]string{}, Extra: r.Chance(1, 3)}
		for _, a := range t.Attrs {
			if r.Bool() {
				continue
			}
			text := validLiteral(r, a)
			switch r.Intn(14) {
			case 0:
				text = otherLiterals[r.Intn(len(otherLiterals))]
			case 1:
				text = "null"
				c.Count("attr_null")
			}
			if text == "null" {
				c.Count("attr_null")
			}
			p.Attrs[a.Name] = text
		}
		for _, rl := range t.Rels {
			if r.Bool() {
				continue
			}
			ident := func() string {
				idb, _ := json.Marshal(genNonEmptyID(r))
				return fmt.Sprintf(`{"id":%s,"type":%q}`, idb, rl.ToType)
			}
			switch r.Intn(6) {
			case 0:
				p.Rels[rl.Name] = ""
				p.Extra = true // relationship object with only links/meta
				c.Count("rel_without_data")
			case 1:
				p.Rels[rl.Name] = "null"
				c.Count("rel_null_data")
			default:
				if rl.ToOne {
					p.Rels[rl.Name] = ident()
				} else {
					parts := []string{}
					for i := r.Intn(4); i > 0; i-- {
						parts = append(parts, ident())
					}
					p.Rels[rl.Name] = "[" + strings.Join(parts, ",") + "]"
				}
			}
		}
		data := p.bytes()
		if c.Index < 1 && rep == 0 {
			c.Sample(map[string]any{"payload": string(data), "type": t})
		}
		m.run(c, &t, data)
		// kind mutation of one position
		if root, err := parseJV(data); err == nil && r.Chance(1, 3) {
			var slots []**JV
			root.slots(&slots)
			if len(slots) > 0 {
				*slots[r.Intn(len(slots))] = &JV{Kind: 'r', Str: c05replacements[r.Intn(len(c05replacements))]}
				m.run(c, &t, root.bytes())
			}
		}
		// bytes around the object: leading / trailing white space is JSON, anything else after the value is not
		if r.Chance(1, 4) {
			tail := r.Pick([]string{"}", "]", ",", " null", "\n" + string(data), string(data), " x", "\x00", " \n\t ", "\n", "//c", "0", "\"\"", "{}", "[]", " \ufeff"})
			m.run(c, &t, append(append([]byte{}, data...), tail...))
			c.Count("payloads_with_bytes_after_the_object")
			if r.Bool() {
				head := r.Pick([]string{" ", "\n\t", "\ufeff", "x", "[", ","})
				m.run(c, &t, append([]byte(head), data...))
			}
		}
		// unknown field
		if r.Chance(1, 8) {
			p.Attrs["no-such-attr"] = "1"
			m.run(c, &t, p.bytes())
			delete(p.Attrs, "no-such-attr")
		}
		// unknown member with an unusual name, as an attribute or as a relationship (round 15:
		// a name that starts with "@" was skipped by the partial reader only)
		if r.Chance(1, 6) {
			n := r.Pick([]string{"@context", "@x", "@", "_x", "-x", "~x", "x@", "X", "9", "no-such-field", "x:y", "x y"})
			if t.Attr(n) == nil && t.Rel(n) == nil {
				if r.Bool() {
					p.Attrs[n] = r.Pick([]string{"1", "null", `"s"`, "{}"})
					m.run(c, &t, p.bytes())
					delete(p.Attrs, n)
					c.Count("unknown_attribute_odd_name")
				} else {
					p.Rels[n] = r.Pick([]string{"null", "[]", `{"id":"1","type":"` + t.Name + `"}`})
					m.run(c, &t, p.bytes())
					delete(p.Rels, n)
					c.Count("unknown_relationship_odd_name")
				}
			}
		}
	}
}

func (m c13) Directed(c *Ctx) {
	c.Name = "every-subset"
	r := NewRNG(13)
	for _, wrapped := range []bool{false, true} {
		t := TypeSpec{Name: "t", Wrapped: wrapped, Attrs: []AttrSpec{{Name: "a1", Kind: KString}, {Name: "a2", Kind: KInt, Null: true}, {Name: "a3", Kind: KBytes}, {Name: "a4", Kind: KTime, Null: true}},
			Rels: []RelSpec{{Name: "r1", ToOne: true, ToType: "t"}, {Name: "r2", ToType: "t"}, {Name: "r3", ToOne: true, ToType: "t", ToName: "r2"}}}
		fields := t.FieldNames()
		for mask := 0; mask < 1<<len(fields); mask++ {
			p := &c06payload{Type: t, ID: "1", Attrs: map[string]string{}, Rels: map[string]string{}}
			for i, f := range fields {
				if mask&(1<<i) == 0 {
					continue
				}
				if a := t.Attr(f); a != nil {
					p.Attrs[f] = validLiteral(r, *a)
				} else if t.Rel(f).ToOne {
					p.Rels[f] = []string{`{"id":"x","type":"t"}`, `null`}[mask%2]
				} else {
					p.Rels[f] = []string{`[{"id":"x","type":"t"},{"id":"y","type":"t"}]`, `[]`}[mask%2]
				}
			}
			m.run(c, &t, p.bytes())
			p.Extra = true
			m.run(c, &t, p.bytes())
		}
	}
	c.Name = "odd-field-names"
	for _, pre := range []string{"@", "_", "-", "~", "x@"} {
		t := TypeSpec{Name: "t", Attrs: []AttrSpec{{Name: pre + "lang", Kind: KString}, {Name: "a2", Kind: KInt}},
			Rels: []RelSpec{{Name: pre + "rel", ToOne: true, ToType: "t"}, {Name: "r2", ToType: "t"}}}
		for _, in := range []string{
			`{"id":"1","type":"t","attributes":{"` + pre + `lang":"fr"}}`,
			`{"id":"1","type":"t","attributes":{"` + pre + `lang":"fr","a2":3}}`,
			`{"id":"1","type":"t","relationships":{"` + pre + `rel":{"data":{"id":"2","type":"t"}}}}`,
			`{"id":"1","type":"t","attributes":{"a2":3},"relationships":{"` + pre + `rel":{"data":null},"r2":{"data":[]}}}`,
			`{"id":"1","type":"t","attributes":{"` + pre + `other":1}}`,
			`{"id":"1","type":"t","relationships":{"` + pre + `other":{"data":null}}}`,
		} {
			m.run(c, &t, []byte(in))
		}
	}
	c.Name = "witness-unknown-type"
	t := TypeSpec{Name: "t", Attrs: []AttrSpec{{Name: "a", Kind: KString}}}
	for _, in := range []string{`{"id":"1","type":"nope"}`, `{"id":"1"}`, `null`, `{}`, `{"id":"1","type":"t","relationships":{}}`, `{"id":"1","type":"t","attributes":{"a":"x","a":"y"}}`} {
		m.run(c, &t, []byte(in))
	}
	c.Extra["exhaustive_subspaces"] = []string{"all 128 subsets of a 7-field type's fields as the payload's members, soft and wrapped, with and without extra links/meta members"}
}
