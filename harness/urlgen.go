package main

import (
	"encoding/json"
	"fmt"
	"strings"
)

// QP is one query parameter (unescaped name and value).
type QP struct {
	Name  string `json:"n"`
	Value string `json:"v"`
}

// URLSpec is a raw URL written as plain data.
type URLSpec struct {
	Frags      []string `json:"fragments"`
	Params     []QP     `json:"params"`
	RawBr      bool     `json:"raw_brackets,omitempty"` // leave [ ] , unescaped
	Corrupt    string   `json:"corrupt,omitempty"`      // text spliced in verbatim (malformed escapes etc.)
	TrailSlash bool     `json:"trailing_slash,omitempty"`
}

const unreserved = "ABCDEFGHIJKLMNOPQRSTUVWXYZabcdefghijklmnopqrstuvwxyz0123456789-_.~"

func pctEscape(s string, keep string) string {
	var sb strings.Builder
	for i := 0; i < len(s); i++ {
		c := s[i]
		if strings.IndexByte(unreserved, c) >= 0 || strings.IndexByte(keep, c) >= 0 {
			sb.WriteByte(c)
		} else {
			fmt.Fprintf(&sb, "%%%02X", c)
		}
	}
	return sb.String()
}

// Raw renders the URL text.
func (u *URLSpec) Raw() string {
	var sb strings.Builder
	for _, f := range u.Frags {
		sb.WriteString("/" + pctEscape(f, ""))
	}
	if len(u.Frags) == 0 || u.TrailSlash {
		sb.WriteString("/")
	}
	keep := ""
	if u.RawBr {
		keep = "[],"
	}
	for i, p := range u.Params {
		if i == 0 {
			sb.WriteString("?")
		} else {
			sb.WriteString("&")
		}
		sb.WriteString(pctEscape(p.Name, keep) + "=" + pctEscape(p.Value, keep))
	}
	if u.Corrupt != "" {
		if len(u.Params) == 0 {
			sb.WriteString("?")
		} else {
			sb.WriteString("&")
		}
		sb.WriteString(u.Corrupt)
	}
	return sb.String()
}

// values of a parameter name in order of appearance
func (u *URLSpec) values(name string) []string {
	var out []string
	for _, p := range u.Params {
		if p.Name == name {
			out = append(out, p.Value)
		}
	}
	return out
}

func splitList(v string) []string {
	out := []string{}
	for _, x := range strings.Split(v, ",") {
		if x != "" {
			out = append(out, x)
		}
	}
	return out
}

// resTypeOf is my own reading of which type a path addresses (ok=false: the parser must refuse).
// isCol says whether it is a collection URL.
func resTypeOf(s *SchemaSpec, frags []string) (typ string, isCol bool, ok bool) {
	if len(frags) == 0 {
		return "", false, false
	}
	t := s.Type(frags[0])
	if t == nil {
		return "", false, false
	}
	switch {
	case len(frags) == 1:
		return t.Name, true, true
	case len(frags) == 2:
		return t.Name, false, true
	}
	rl := t.Rel(frags[len(frags)-1])
	if rl == nil {
		return "", false, false
	}
	return rl.ToType, !rl.ToOne, true
}

// validIncludePath walks a dotted path from typ.
func validIncludePath(s *SchemaSpec, typ string, path string) bool {
	cur := typ
	for _, w := range strings.Split(path, ".") {
		t := s.Type(cur)
		if t == nil {
			return false
		}
		rl := t.Rel(w)
		if rl == nil {
			return false
		}
		cur = rl.ToType
	}
	return true
}

// genURLSchema is a schema whose relationship names share prefixes and that may have dangling targets.
func genURLSchema(r *RNG) *SchemaSpec {
	s := genSchema(r, genOpts{MaxTypes: 3, MaxAttrs: 4, MaxRels: 4, AllowWrap: true, Coherent: true})
	if r.Chance(1, 3) {
		// make prefix-related relationship names likely
		t := &s.Types[0]
		have := map[string]bool{}
		for _, f := range t.FieldNames() {
			have[f] = true
		}
		for _, n := range []string{"author", "authors", "a", "ab", "a-b"} {
			if !have[n] && len(t.Rels) < 6 && r.Bool() {
				t.Rels = append(t.Rels, RelSpec{Name: n, ToOne: r.Bool(), ToType: s.Types[r.Intn(len(s.Types))].Name})
			}
		}
	}
	if r.Chance(1, 8) {
		t := &s.Types[r.Intn(len(s.Types))]
		if len(t.Rels) > 0 {
			t.Rels[r.Intn(len(t.Rels))].ToType = "ghost" // dangling relationship
			t.Rels[0].ToName = ""
		}
	}
	if r.Chance(1, 10) {
		s.Types = append(s.Types, TypeSpec{Name: "e"}) // a type without any field
	}
	return s
}

var urlIDPool = []string{"1", "abc", "a b", "a&b", "a?b", "a#b", "a%b", "a+b", "a/b", "é", "meta", "relationships", "%41", "a=b", "😀", "a,b", "[x]", "."}

func genListValue(r *RNG, valid []string, extras []string) string {
	var items []string
	n := r.Intn(5)
	for i := 0; i < n; i++ {
		switch {
		case len(valid) > 0 && r.Chance(3, 4):
			items = append(items, valid[r.Intn(len(valid))])
		case len(extras) > 0:
			items = append(items, extras[r.Intn(len(extras))])
		}
	}
	if r.Chance(1, 6) {
		items = append(items, "") // empty list item
	}
	if r.Chance(1, 8) && len(items) > 0 {
		items = append([]string{""}, items...)
	}
	if r.Chance(1, 10) {
		// white-space-only and padded items (not empty items: they are names, unknown ones)
		ws := r.Pick([]string{" ", "  ", "\t", " id", "id ", "- ", " -"})
		at := r.Intn(len(items) + 1)
		items = append(append(append([]string{}, items[:at]...), ws), items[at:]...)
	}
	return strings.Join(items, ",")
}

func genIncludePath(r *RNG, s *SchemaSpec, typ string) string {
	var words []string
	cur := typ
	depth := r.Range(1, 6)
	for i := 0; i < depth; i++ {
		t := s.Type(cur)
		if t == nil || len(t.Rels) == 0 {
			break
		}
		rl := t.Rels[r.Intn(len(t.Rels))]
		words = append(words, rl.Name)
		cur = rl.ToType
	}
	if len(words) == 0 || r.Chance(1, 8) {
		words = append(words, r.Pick([]string{"nope", "author", "a", ""}))
	}
	return strings.Join(words, ".")
}

func genFilterSpec(r *RNG, t *TypeSpec, depth int) map[string]any {
	if depth > 0 && r.Chance(1, 3) {
		kids := []any{}
		for i := r.Intn(3); i > 0; i-- {
			kids = append(kids, genFilterSpec(r, t, depth-1))
		}
		node := map[string]any{"o": r.Pick([]string{"and", "or"}), "v": kids}
		if r.Chance(1, 4) {
			node["c"] = r.Pick([]string{"nocase", "unicode_ci", "a b"}) // a collation on a logical node is part of the tree
		}
		if r.Chance(1, 8) {
			node["f"] = "ignored-on-logical-nodes"
		}
		return node
	}
	f := "x"
	if t != nil && len(t.Attrs) > 0 {
		f = t.Attrs[r.Intn(len(t.Attrs))].Name
	}
	var v any
	switch r.Intn(5) {
	case 0:
		v = float64(r.Range(-5, 5))
	case 1:
		v = r.Bool()
	case 2:
		v = nil
	default:
		v = r.Pick([]string{"abc", "a b", "a&b=c", "x?y#z", "50%", "a+b", "a/b", "é", "<>", "\"q\"", "\\"})
	}
	m := map[string]any{"f": f, "o": r.Pick([]string{"=", "!=", "<", ">=", "in", "~"}), "v": v}
	if r.Chance(1, 4) {
		m["c"] = r.Pick([]string{"", "nocase", "a b"})
	}
	return m
}

// genURL draws a raw URL over schema s.
func genURL(r *RNG, s *SchemaSpec) *URLSpec {
	u := &URLSpec{RawBr: r.Bool()}
	typeName := func() string {
		switch r.Intn(12) {
		case 0:
			return "nope"
		case 1:
			return r.Pick([]string{"meta", "relationships", "Users", " "})
		}
		return s.Types[r.Intn(len(s.Types))].Name
	}
	nf := []int{0, 1, 1, 1, 2, 2, 3, 3, 4, 4, 5, 6}[r.Intn(12)]
	if nf >= 1 {
		u.Frags = append(u.Frags, typeName())
	}
	if nf >= 2 {
		u.Frags = append(u.Frags, urlIDPool[r.Intn(len(urlIDPool))])
	}
	relName := func() string {
		t := s.Type(u.Frags[0])
		if t != nil && len(t.Rels) > 0 && r.Chance(4, 5) {
			return t.Rels[r.Intn(len(t.Rels))].Name
		}
		return r.Pick([]string{"nope", "meta", "relationships", "author"})
	}
	switch {
	case nf == 3:
		u.Frags = append(u.Frags, relName())
	case nf == 4:
		u.Frags = append(u.Frags, r.Pick([]string{"relationships", "relationships", "meta", "x"}), relName())
	case nf >= 5:
		for i := 2; i < nf-1; i++ {
			u.Frags = append(u.Frags, r.Pick([]string{"relationships", "meta", "x", "a"}))
		}
		u.Frags = append(u.Frags, relName())
	}
	u.TrailSlash = r.Chance(1, 10)
	resType, _, ok := resTypeOf(s, u.Frags)
	var rt *TypeSpec
	if ok {
		rt = s.Type(resType)
	}
	if rt == nil {
		rt = &s.Types[0]
	}
	np := r.Intn(7)
	for i := 0; i < np; i++ {
		switch r.Intn(12) {
		case 0, 1:
			t := &s.Types[r.Intn(len(s.Types))]
			if r.Bool() {
				t = rt
			}
			name := t.Name
			if r.Chance(1, 10) {
				name = r.Pick([]string{"nope", ""})
			}
			u.Params = append(u.Params, QP{"fields[" + name + "]", genListValue(r, t.FieldNames(), []string{"id", "nope", "x"})})
		case 2, 3, 4:
			names := append(append([]string{}, rt.AttrNames()...), "id")
			var items []string
			n := r.Intn(5)
			if r.Chance(1, 10) {
				n = 3*len(rt.Attrs) + r.Intn(6) // repeated rules, more than the type has attributes
			}
			for j := 0; j < n; j++ {
				it := "nope"
				if r.Chance(5, 6) {
					it = names[r.Intn(len(names))]
				} else if len(rt.Rels) > 0 && r.Bool() {
					it = rt.Rels[0].Name // a relationship is not sortable
				}
				if r.Chance(1, 3) {
					it = "-" + it
				} else if r.Chance(1, 8) {
					it = "+" + it // an explicit plus sign (written %2B in the query) is not part of a rule
				}
				items = append(items, it)
			}
			if r.Chance(1, 10) {
				items = append(items, r.Pick([]string{"-", "--id", "", " ", "  ", "- ", " id", "\t"}))
			}
			u.Params = append(u.Params, QP{"sort", strings.Join(items, ",")})
		case 5, 6:
			var paths []string
			for j := r.Range(1, 3); j > 0; j-- {
				paths = append(paths, genIncludePath(r, s, rt.Name))
			}
			if r.Chance(1, 4) && len(paths) > 0 {
				// a requested prefix of another requested path
				ws := strings.Split(paths[0], ".")
				paths = append(paths, strings.Join(ws[:r.Range(1, len(ws))], "."))
			}
			if r.Chance(1, 8) {
				paths = append(paths, "nope1", "nope2")
			}
			u.Params = append(u.Params, QP{"include", strings.Join(shuffleStrings(r, paths), ",")})
		case 7:
			u.Params = append(u.Params, QP{"page[" + r.Pick([]string{"size", "number", "size", "number", "cursor", "a b", "x]y", "", "after", "before", "offset", "limit", "after"}) + "]", r.Pick([]string{"0", "1", "10", "007", "-3", "abc", "a b", "a&b", "9223372036854775808", "1e3", "", "%", " ", "  ", "\t", " 1", "1 ", "+", "1700000000", "0042", "abc=="})})
		case 8, 9:
			switch r.Intn(6) {
			case 0:
				u.Params = append(u.Params, QP{"filter", ""})
			case 1, 2:
				u.Params = append(u.Params, QP{"filter", r.Pick([]string{"label", "a_label", "a b", "a&b", "x?y", "a#b", "50%", "a+b", "a/b", "é", "{", "\"", "a\\nb", "[1]",
					`ring\u0007bell`, `del\u007fchar`, `a\\b`, `\"q\"`, `\u00e9`, `\ud83d\ude00`, `tab\tx`, `\u007Bx`, `\u000b`, `\udb40\udc01`, `a\/b`, `<\u003e&`,
					// labels whose FIRST character (given as an escape) is one a JSON value can start with
					`\u005bdraft]`, `\u005b]`, `\u005b{}]`, `\u0022q`, `\u0074rue`, `\u006eull`, `\u0031`, `\u002d1`, `\u0020lead`, "true", "null", "12", "-1", "\xff", "a\xc3", "\xed\xa0\x80z", "ok\xfe\xff",
					// white space before a character that could start a JSON value
					" {draft}", "  {", " {}", ` {"f":"a","o":"=","v":1}`, `\u0020{x}`, "\t{", " [1]", " \"q", " true", "\n{}"})})
			case 3:
				u.Params = append(u.Params, QP{"filter", r.Pick([]string{`{invalid}`, `{"f":1}`, `{"o":"and","v":5}`, `{"o":"or","v":[1]}`, `{}`, `{"f":"a","o":"=","v":"x"} trailing`,
					`{"o":"or","v":[null]}`, `{"o":"and","v":[{"o":"or","v":[null]},null]}`, `{"o":"and"}`, `{"o":"or"}`, `{"o":"and","v":null}`, `{"o":"and","v":[{"o":"or"}]}`, `{"o":"or","v":[{"o":"and","v":[]},{"o":"or"}]}`, `{"f":"a","o":"="}`, `{"o":"in","f":"a"}`, `{"o":"and","v":""}`, `{"v":[]}`})})
			default:
				b, _ := json.Marshal(genFilterSpec(r, rt, 3))
				u.Params = append(u.Params, QP{"filter", string(b)})
			}
		case 10:
			u.Params = append(u.Params, QP{r.Pick([]string{"foo", "fields", "fields[]", "page[]", "page", "sortx", "Include", "filter[x]", "fields[a", "", "pagesize]", "sort]", "]", "x]]", "a]b[c]", "[", "[]", "fields]"}), r.Pick([]string{"", "x", "1"})})
		default:
			// repeat an earlier parameter name with another value
			if len(u.Params) > 0 {
				p := u.Params[r.Intn(len(u.Params))]
				u.Params = append(u.Params, QP{p.Name, p.Value + r.Pick([]string{"", ",id", ",x"})})
			}
		}
	}
	if r.Chance(1, 12) {
		u.Corrupt = r.Pick([]string{"%zz=1", "a=%", "%", "sort=%G1", "&&", ";", "fields[x=1", "a=b;c=d", "sort=a;include=b", "=", "filter=%7B", "page[size]=%31%30"})
	}
	return u
}
