package main

import (
	"fmt"
	"reflect"
	"sort"
	"strings"

	"github.com/mfcochauxlaberge/jsonapi"
)

// A struct whose json tags carry options (`json:"title,omitempty"`), as structs that are also used with
// encoding/json do. Whatever name the library derives from such a tag (the whole tag or the part before the
// comma), every site has to derive the same one: the type that BuildType puts in the schema and the wrapper that
// Wrap returns are two views of the same struct. The battery never says which reading is right; it only uses the
// names the wrapper itself reports.
type tagOptRec struct {
	ID     string   `json:"id" api:"tagopts"`
	Title  string   `json:"title,omitempty" api:"attr"`
	Views  *int     `json:"views,omitempty" api:"attr"`
	Plain  string   `json:"plain" api:"attr"`
	Author string   `json:"author,omitempty" api:"rel,tagopts"`
	Tags   []string `json:"tags,omitempty" api:"rel,tagopts"`
	Peer   string   `json:"peer" api:"rel,tagopts"`
}

func tagOptBattery() (problems map[string]string) {
	problems = map[string]string{}
	note := func(prop, format string, args ...any) {
		if _, dup := problems[prop]; !dup {
			problems[prop] = fmt.Sprintf(format, args...)
		}
	}
	defer func() {
		if rec := recover(); rec != nil {
			for _, p := range []string{"C01", "C02", "C17", "C18", "C20"} {
				note(p, "panic while using a struct whose json tags carry options: %v", rec)
			}
		}
	}()
	typ, err := jsonapi.BuildType(tagOptRec{})
	if err != nil {
		// refusing such a struct outright is a reading too (nothing can then be round-tripped with it)
		return
	}
	views := 3
	v := &tagOptRec{}
	w := jsonapi.Wrap(v)
	keys := func(res jsonapi.Resource) (attrs, rels []string) {
		for n := range res.Attrs() {
			attrs = append(attrs, n)
		}
		for n := range res.Rels() {
			rels = append(rels, n)
		}
		sort.Strings(attrs)
		sort.Strings(rels)
		return
	}
	wa, wr := keys(w)
	var ta, tr []string
	for n := range typ.Attrs {
		ta = append(ta, n)
	}
	for n := range typ.Rels {
		tr = append(tr, n)
	}
	sort.Strings(ta)
	sort.Strings(tr)
	if !reflect.DeepEqual(wa, ta) || !reflect.DeepEqual(wr, tr) {
		note("C20", "BuildType names attributes %q relationships %q, Wrap of the same struct names them %q %q", ta, tr, wa, wr)
	}
	if len(wa) != 3 || len(wr) != 3 {
		note("C20", "Wrap of a struct with 3 attributes and 3 relationships reports attributes %q relationships %q", wa, wr)
		return
	}
	find := func(names []string, prefix string) string {
		for _, n := range names {
			if n == prefix || strings.HasPrefix(n, prefix+",") {
				return n
			}
		}
		return prefix
	}
	title, viewsN, plain := find(wa, "title"), find(wa, "views"), find(wa, "plain")
	author, tags, peer := find(wr, "author"), find(wr, "tags"), find(wr, "peer")
	w.Set("id", "r1")
	w.Set(title, "T")
	w.Set(viewsN, &views)
	w.Set(plain, "P")
	w.Set(author, "a1")
	w.Set(tags, []string{"t2", "t1"})
	w.Set(peer, "p1")
	read := func(res jsonapi.Resource) string {
		vw := "nil"
		if p, _ := res.Get(viewsN).(*int); p != nil {
			vw = fmt.Sprint(*p)
		}
		tg, _ := res.Get(tags).([]string)
		tg = append([]string{}, tg...)
		sort.Strings(tg)
		return fmt.Sprintf("id=%v title=%v views=%s plain=%v author=%v tags=%q peer=%v", res.Get("id"), res.Get(title), vw, res.Get(plain), res.Get(author), tg, res.Get(peer))
	}
	want := `id=r1 title=T views=3 plain=P author=a1 tags=["t1" "t2"] peer=p1`
	if got := read(w); got != want {
		note("C17", "struct with json tag options: after Set of every field Get reads %s, want %s", got, want)
		return
	}
	if v.Title != "T" || v.Author != "a1" || len(v.Tags) != 2 {
		note("C17", "struct with json tag options: Set did not reach the struct fields: %+v", *v)
	}
	if got := read(w.Copy()); got != want {
		note("C18", "struct with json tag options: the copy reads %s, the source %s", got, want)
	}
	schema := &jsonapi.Schema{}
	if err := schema.AddType(typ); err != nil {
		return
	}
	fields := append(append([]string{}, wa...), wr...)
	relData := map[string][]string{"tagopts": wr}
	out := jsonapi.MarshalResource(w, "/", fields, relData)
	back, err := jsonapi.UnmarshalResource(out, schema)
	if err != nil {
		note("C01", "struct with json tag options: the marshaled resource is refused against the schema built from the same struct: %v; payload %s", err, clip(string(out), 500))
	} else if got := read(back); got != want {
		note("C01", "struct with json tag options: round trip reads %s, want %s; payload %s", got, want, clip(string(out), 500))
	}
	url := &jsonapi.URL{Fragments: []string{"tagopts", "r1"}, ResType: "tagopts", ResID: "r1", Params: &jsonapi.Params{Fields: map[string][]string{"tagopts": fields}}}
	for _, kind := range []string{"resource", "collection", "included"} {
		doc := &jsonapi.Document{RelData: relData, PrePath: "/"}
		switch kind {
		case "resource":
			doc.Data = w
		case "collection":
			doc.Data = &jsonapi.Resources{w}
		default:
			doc.Data = jsonapi.Identifier{Type: "tagopts", ID: "zz"}
			doc.Included = []jsonapi.Resource{w}
		}
		pl, err := jsonapi.MarshalDocument(doc, url)
		if err != nil {
			note("C02", "struct with json tag options (%s): MarshalDocument fails: %v", kind, err)
			continue
		}
		d2, err := jsonapi.UnmarshalDocument(pl, schema)
		if err != nil {
			note("C02", "struct with json tag options (%s): the marshaled document is refused against the schema built from the same struct: %v; payload %s", kind, err, clip(string(pl), 500))
			continue
		}
		var got jsonapi.Resource
		switch kind {
		case "resource":
			got, _ = d2.Data.(jsonapi.Resource)
		case "collection":
			if col, ok := d2.Data.(jsonapi.Collection); ok && col.Len() == 1 {
				got = col.At(0)
			}
		default:
			if len(d2.Included) == 1 {
				got = d2.Included[0]
			}
		}
		if got == nil {
			note("C02", "struct with json tag options (%s): the resource is missing after the round trip; payload %s", kind, clip(string(pl), 500))
		} else if g := read(got); g != want {
			note("C02", "struct with json tag options (%s): round trip reads %s, want %s; payload %s", kind, g, want, clip(string(pl), 500))
		}
	}
	return problems
}

// tagOptCheck runs the battery for one property.
func tagOptCheck(c *Ctx, prop string) {
	c.Name = "json-tag-options"
	problems := tagOptBattery()
	c.Count("json_tag_option_batteries")
	if msg, bad := problems[prop]; bad {
		c.Violate("json-tag-options", "%s", msg)
	}
}
