package main

import (
	"fmt"
	"net/http"
	"os"
	"path/filepath"
	"regexp"
	"runtime"
	"sort"
	"strings"
	"sync"

	"github.com/mfcochauxlaberge/jsonapi"
)

// C12 — a built schema can be shared by concurrent requests.
type c12 struct{}

func init() { register(c12{}) }

func (c12) ID() string { return "C12" }
func (c12) Size(tier string) Size {
	if tier == "thorough" {
		return Size{Batches: 8, Cases: 40}
	}
	return Size{Batches: 4, Cases: 10}
}
func (c12) Rule() string {
	return "binary built with -race (GORACE halt_on_error=0, log files counted, not the exit code). case = scenario: random schema of struct-backed and soft types (incl. soft types with nil maps, a relationship to a missing type, half a two-way relationship whose inverse was never declared) built once, then per goroutine a private list of operations from {NewURLFromRaw, NewRequest, UnmarshalDocument, UnmarshalPartialResource, GetType(n).New()+Set, MarshalDocument of a goroutine-private document made of resources of the shared types, a SoftCollection typed with what GetType returns, filled with resources of that type and marshaled, GetType, HasType, Check, Rels}. Phase 0 (cold start): several brand-new copies of the schema are FIRST used by up to 16 goroutines at once (each starts by creating a resource of every type), so lazily initialised shared state is initialised under contention. Phase A (sequential): every op once, result fingerprint recorded, deep reflective fingerprint of the schema (exported and unexported state) compared before/after EACH op. Phase B: G in {2,4,8,16} goroutines with GOMAXPROCS in {2,16}, released together, each running its list N times into private buffers (no shared monitor state). Phase C: every concurrent result equals its sequential baseline; schema fingerprint unchanged; race log files parsed and deduplicated by the pair of outermost library frames. Payloads carry a resource-level meta object, and some relationship objects come without a data member (links / meta only) or with null / empty data; objects returned by NewURLFromRaw / NewRequest / Unmarshal* are kept by the goroutine and read again three calls later (a returned object belongs to its caller: a later call must not change it), sequentially and concurrently. Directed: a hand-assembled schema (type literals, one name used by an attribute and a relationship, a relationship without FromType) goes through every read-only operation but marshaling, fingerprint after each, then 8 goroutines on brand-new copies. Non-trivial = scenario with >= 2 goroutines and >= 3 distinct op kinds; distinct = scenario hash."
}
func (c12) Assumptions() []string {
	return []string{"the race detector is happens-before based: it reports races between accesses the workload performs, whatever their timing, and nothing about accesses not performed",
		"interleavings are sampled (goroutine counts, GOMAXPROCS, repetitions), not enumerated",
		"the trace hook variable is left nil so that the hook cannot synchronise goroutines"}
}
func (c12) Floors(tier string, c map[string]int64) []string {
	var out []string
	if c["race_enabled_workers"] == 0 || c["race_disabled_workers"] > 0 {
		out = append(out, "a worker was not built with the race detector")
	}
	if c["set_size/op-pair"] < 55 {
		out = append(out, fmt.Sprintf("only %d of 66 op-kind pairs ran concurrently", c["set_size/op-pair"]))
	}
	if c["concurrent_ops"] < 1000 {
		out = append(out, "fewer than 1000 concurrent operations")
	}
	if c["schemas_with_8_or_more_types"] == 0 {
		out = append(out, "no schema with 8 or more types")
	}
	if c["cold_rounds"] == 0 {
		out = append(out, "no cold-start round (brand-new schema first used concurrently)")
	}
	return out
}

func (c12) WorkerEnv(outdir string, batch int) []string {
	return []string{fmt.Sprintf("GORACE=halt_on_error=0 log_path=%s", filepath.Join(outdir, fmt.Sprintf("race-b%d", batch)))}
}

var raceFrameRE = regexp.MustCompile(`^\s+(github\.com/mfcochauxlaberge/jsonapi\.\S*?)\(\)\s*$`)
var anyFrameRE = regexp.MustCompile(`^\s+([A-Za-z0-9_./*()\-]+)\(`)

// PostBatch parses the race detector's log files of one worker.
func (c12) PostBatch(outdir string, batch int, res *workerResult) {
	files, _ := filepath.Glob(filepath.Join(outdir, fmt.Sprintf("race-b%d.*", batch)))
	seen := map[string]bool{}
	res.Counters["race_log_files_parsed"] += int64(len(files))
	res.Counters["race_reports"] += 0
	for _, f := range files {
		b, err := os.ReadFile(f)
		if err != nil {
			continue
		}
		for _, block := range strings.Split(string(b), "==================") {
			if !strings.Contains(block, "WARNING: DATA RACE") {
				if strings.Contains(block, "fatal error: concurrent map") {
					res.Violations = append(res.Violations, Violation{Sig: "fatal/concurrent-map-access", Detail: clip(block, 2000), Batch: batch, Index: -1})
				}
				continue
			}
			res.Counters["race_reports"]++
			// split into access stacks: sections start with a line ending in ':' that mentions goroutine
			var stacks [][]string
			var cur []string
			for _, line := range strings.Split(block, "\n") {
				l := strings.TrimSpace(line)
				if (strings.HasPrefix(l, "Write at") || strings.HasPrefix(l, "Read at") || strings.HasPrefix(l, "Previous write at") || strings.HasPrefix(l, "Previous read at") ||
					strings.HasPrefix(l, "Atomic") || strings.HasPrefix(l, "Previous atomic")) && strings.HasSuffix(l, ":") {
					if cur != nil {
						stacks = append(stacks, cur)
					}
					cur = []string{}
					continue
				}
				if strings.HasPrefix(l, "Goroutine ") {
					if cur != nil {
						stacks = append(stacks, cur)
					}
					cur = nil
					break
				}
				if cur != nil {
					if m := raceFrameRE.FindStringSubmatch(line); m != nil {
						cur = append(cur, strings.TrimPrefix(m[1], libPrefix))
					}
				}
			}
			if cur != nil {
				stacks = append(stacks, cur)
			}
			var outer []string
			for _, st := range stacks {
				if len(st) > 0 {
					outer = append(outer, st[len(st)-1]) // outermost library frame = entry point
				} else {
					outer = append(outer, "no-library-frame")
				}
			}
			sort.Strings(outer)
			sig := "race/" + strings.Join(outer, "+")
			sig = strings.NewReplacer("(*", "", ")", "").Replace(sig)
			if seen[sig] {
				continue
			}
			seen[sig] = true
			if !strings.Contains(sig, ".") && strings.Count(sig, "no-library-frame") == len(outer) {
				res.Counters["harness_panics"]++ // a race entirely outside the library: harness bug, no verdict
				res.Extra["harness_panic"] = "data race outside the library: " + clip(block, 600)
				continue
			}
			res.Violations = append(res.Violations, Violation{Sig: sig, Detail: clip(strings.TrimSpace(block), 3500), Batch: batch, Index: -1, Name: "race-log"})
		}
	}
}

type c12op struct {
	Kind  string   `json:"kind"`
	Raw   string   `json:"raw,omitempty"`
	Body  string   `json:"body,omitempty"`
	Type  string   `json:"type,omitempty"`
	Res   *ResSpec `json:"res,omitempty"`
	Doc   *DocSpec `json:"-"`
	Names []string `json:"names,omitempty"`
}

var c12kinds = []string{"NewURLFromRaw", "NewRequest", "UnmarshalDocument", "UnmarshalPartialResource", "New+Set", "Types[i].New", "MarshalDocument", "GetType", "HasType", "Check", "Rels", "RejectedBody", "Echo", "Collect"}

// exec runs one op against the shared schema and returns a result fingerprint.
func (o *c12op) exec(s *SchemaSpec, schema *jsonapi.Schema) string {
	out, _ := o.exec2(s, schema)
	return out
}

// c12kept is a result object a goroutine keeps and reads again after its NEXT calls: what a call returned belongs to
// the caller, so a later call (by anybody) must not change it.
type c12kept struct {
	fp    string
	again func() string
	kind  string
}

// c12keeper re-reads each kept result three calls later.
type c12keeper struct{ ring []c12kept }

func (k *c12keeper) push(out string, again func() string, kind string) string {
	if again == nil {
		return out
	}
	k.ring = append(k.ring, c12kept{out, again, kind})
	if len(k.ring) > 3 {
		old := k.ring[0]
		k.ring = k.ring[1:]
		var now string
		if pi := Guard(func() { now = old.again() }); pi != nil {
			now = "panic:" + pi.Frame
		}
		if now != old.fp {
			return "EARLIER-RESULT-CHANGED/" + old.kind + ": was " + clip(old.fp, 300) + " now " + clip(now, 300)
		}
	}
	return out
}

// exec2 also returns a closure that reads the returned objects again (nil when the op returns no object).
func (o *c12op) exec2(s *SchemaSpec, schema *jsonapi.Schema) (string, func() string) {
	switch o.Kind {
	case "NewRequest":
		hr, herr := http.NewRequest("POST", o.Raw, strings.NewReader(o.Body))
		if herr != nil {
			return "httperr", nil
		}
		req, err := jsonapi.NewRequest(hr, schema)
		if err != nil {
			return "err", nil
		}
		again := func() string { return req.URL.String() + "|" + docFingerprint(req.Doc) }
		return again(), again
	case "UnmarshalDocument":
		doc, err := jsonapi.UnmarshalDocument([]byte(o.Body), schema)
		if err != nil {
			return "err", nil
		}
		again := func() string { return docFingerprint(doc) }
		return again(), again
	case "UnmarshalPartialResource":
		res, err := jsonapi.UnmarshalPartialResource([]byte(o.Body), schema)
		if err != nil {
			return "err", nil
		}
		again := func() string { return resFingerprint(res) }
		return again(), again
	case "Echo":
		// a document read from a request body and written back (proxy / echo): unmarshal, then marshal THAT document
		doc, err := jsonapi.UnmarshalDocument([]byte(o.Body), schema)
		if err != nil {
			return "err", nil
		}
		u, uerr := jsonapi.NewURLFromRaw(schema, o.Raw)
		if uerr != nil {
			return "urlerr", nil
		}
		doc.PrePath = "https://echo.example/" + o.Type
		out, merr := jsonapi.MarshalDocument(doc, u)
		if merr != nil {
			return "merr", nil
		}
		again := func() string {
			var sb strings.Builder
			sb.WriteString(digest(out) + "|" + docFingerprint(doc))
			for _, k := range sortedKeys(doc.Links) {
				fmt.Fprintf(&sb, "|link.%s=%s", k, doc.Links[k].HRef)
			}
			for _, k := range sortedKeys(doc.RelData) {
				fmt.Fprintf(&sb, "|reldata.%s=%v", k, doc.RelData[k])
			}
			return sb.String()
		}
		return again(), again
	case "RejectedBody":
		// a body with exactly one fault: the error object that comes back belongs to the caller like any result
		_, err := jsonapi.UnmarshalDocument([]byte(o.Body), schema)
		if err == nil {
			return "accepted", nil
		}
		again := func() string {
			var sb strings.Builder
			fmt.Fprintf(&sb, "%T|%s", err, err.Error())
			if e, ok := err.(jsonapi.Error); ok {
				fmt.Fprintf(&sb, "|%s|%s|%s|%s", e.Status, e.Code, e.Title, e.Detail)
				for _, k := range sortedKeys(e.Meta) {
					fmt.Fprintf(&sb, "|meta.%s=%v", k, e.Meta[k])
				}
				for _, k := range sortedKeys(e.Source) {
					fmt.Fprintf(&sb, "|source.%s=%v", k, e.Source[k])
				}
			}
			return sb.String()
		}
		return again(), again
	case "NewURLFromRaw":
		u, err := jsonapi.NewURLFromRaw(schema, o.Raw)
		if err != nil {
			return "err", nil // which of several faults is reported first depends on map order, not on concurrency
		}
		again := func() string { return u.String() }
		return again(), again
	}
	return o.execRest(s, schema), nil
}

func (o *c12op) execRest(s *SchemaSpec, schema *jsonapi.Schema) string {
	switch o.Kind {
	case "New+Set":
		typ := schema.GetType(o.Type)
		res := typ.New()
		t := s.Type(o.Type)
		applySpec(res, t, o.Res)
		return resFingerprint(res)
	case "Types[i].New":
		// creating a resource from the schema's own list of types (no copy through GetType). The resource is
		// not touched afterwards: a soft resource made this way points INTO the schema by design, so using it
		// is editing the schema; creating it must not be.
		for i := range schema.Types {
			if schema.Types[i].Name == o.Type {
				if res := schema.Types[i].New(); res == nil {
					return "nil"
				}
				return "created"
			}
		}
		return "no-such-type"
	case "MarshalDocument":
		d := o.Doc
		doc := &jsonapi.Document{PrePath: d.Prefix, RelData: copyStrMap(d.RelData)}
		mk := func(rs *ResSpec) jsonapi.Resource {
			typ := schema.GetType(rs.Type)
			res := typ.New()
			applySpec(res, s.Type(rs.Type), rs)
			return res
		}
		col := &jsonapi.Resources{}
		for _, rs := range d.Primary {
			col.Add(mk(rs))
		}
		doc.Data = col
		for _, rs := range d.Included {
			doc.Include(mk(rs))
		}
		u, err := jsonapi.NewURLFromRaw(schema, "/"+d.Frags[0])
		if err != nil {
			return "err:" + err.Error()
		}
		out, err := jsonapi.MarshalDocument(doc, u)
		if err != nil {
			return "err:" + err.Error()
		}
		return digest(out)
	case "Collect":
		// the usual way to answer a collection request for a type of the schema: a SoftCollection typed with
		// what GetType returns, filled with resources of that type, marshaled
		typ := schema.GetType(o.Type)
		col := &jsonapi.SoftCollection{}
		col.SetType(&typ)
		for _, rs := range o.Doc.Primary {
			res := typ.New()
			applySpec(res, s.Type(rs.Type), rs)
			col.Add(res)
		}
		u, err := jsonapi.NewURLFromRaw(schema, "/"+o.Type)
		if err != nil {
			return "err:" + err.Error()
		}
		out, err := jsonapi.MarshalDocument(&jsonapi.Document{Data: col, PrePath: "/", RelData: copyStrMap(o.Doc.RelData)}, u)
		if err != nil {
			return "err:" + err.Error()
		}
		return fmt.Sprint(col.Len(), ":", digest(out))
	case "GetType":
		var sb strings.Builder
		for _, n := range o.Names {
			t := schema.GetType(n)
			sb.WriteString(typeFingerprint(&t))
		}
		return sb.String()
	case "HasType":
		var sb strings.Builder
		for _, n := range o.Names {
			fmt.Fprint(&sb, schema.HasType(n))
		}
		return sb.String()
	case "Check":
		errs := schema.Check()
		msgs := []string{}
		for _, e := range errs {
			msgs = append(msgs, e.Error())
		}
		sort.Strings(msgs)
		return strings.Join(msgs, ";")
	case "Rels":
		// names only: for struct-backed types the two sides of a pair may disagree on FromOne (tags
		// cannot express it), and which side's copy survives is not part of this property
		// ... and as a set: relationships declared without FromType tie in Rels()'s order (C16 judges the
		// order for coherent schemas whose relationships name their owner)
		var items []string
		for _, r := range schema.Rels() {
			items = append(items, fmt.Sprintf("{%s.%s->%s.%s}", r.FromType, r.FromName, r.ToType, r.ToName))
		}
		sort.Strings(items)
		return strings.Join(items, "")
	}
	return "?"
}

func applySpec(res jsonapi.Resource, t *TypeSpec, rs *ResSpec) {
	res.Set("id", rs.ID)
	for _, a := range t.Attrs {
		if v, ok := rs.Attrs[a.Name]; ok {
			res.Set(a.Name, v.Go())
		}
	}
	for _, r := range t.Rels {
		if r.ToOne {
			if v, ok := rs.ToOne[r.Name]; ok {
				res.Set(r.Name, v)
			}
		} else if v, ok := rs.ToMany[r.Name]; ok {
			res.Set(r.Name, append([]string{}, v...))
		}
	}
}

func resFingerprint(res jsonapi.Resource) string {
	s := snapshotRes(res)
	var sb strings.Builder
	fmt.Fprintf(&sb, "%s/%s %s %s", s.Type, s.ID, s.Attrs, s.Rels)
	for _, k := range sortedKeys(s.Vals) {
		fmt.Fprintf(&sb, " %s=%s", k, s.Vals[k])
	}
	if mh, ok := res.(jsonapi.MetaHolder); ok {
		meta := mh.Meta()
		for _, k := range sortedKeys(meta) {
			fmt.Fprintf(&sb, " meta.%s=%v", k, meta[k])
		}
	}
	return sb.String()
}

func docFingerprint(doc *jsonapi.Document) string {
	if doc == nil {
		return "nil-doc"
	}
	var sb strings.Builder
	switch d := doc.Data.(type) {
	case nil:
		sb.WriteString("null")
	case jsonapi.Resource:
		sb.WriteString(resFingerprint(d))
	case jsonapi.Collection:
		for i := 0; i < d.Len(); i++ {
			sb.WriteString("[" + resFingerprint(d.At(i)) + "]")
		}
	}
	for _, r := range doc.Included {
		sb.WriteString("{" + resFingerprint(r) + "}")
	}
	return sb.String()
}

func (m c12) genOps(r *RNG, s *SchemaSpec, n int) []c12op {
	names := []string{"nope", ""}
	for _, t := range s.Types {
		names = append(names, t.Name)
	}
	var ops []c12op
	for i := 0; i < n; i++ {
		k := c12kinds[r.Intn(len(c12kinds))]
		o := c12op{Kind: k}
		t := &s.Types[r.Intn(len(s.Types))]
		switch k {
		case "NewURLFromRaw":
			o.Raw = genURL(r, s).Raw()
		case "NewRequest", "UnmarshalDocument", "UnmarshalPartialResource", "Echo":
			o.Raw = "/" + t.Name
			o.Type = fmt.Sprintf("%s-%d", t.Name, i)
			rs := genResource(r, t, genNonEmptyID(r))
			// payload built by my own writer (the library is not used to prepare inputs concurrently)
			p := &c06payload{Type: *t, ID: rs.ID, Attrs: map[string]string{}, Rels: map[string]string{}}
			for _, a := range t.Attrs {
				if r.Bool() {
					p.Attrs[a.Name] = validLiteral(r, a)
				}
			}
			for _, rl := range t.Rels {
				if r.Chance(1, 6) {
					// round 15: a relationship object without a data member (links / meta only), null or empty data
					p.Rels[rl.Name] = r.Pick([]string{"", "null", "[]"})
					if rl.ToOne && p.Rels[rl.Name] == "[]" || !rl.ToOne && p.Rels[rl.Name] == "null" {
						p.Rels[rl.Name] = ""
					}
					if p.Rels[rl.Name] == "" {
						p.Extra = true
					}
				} else if r.Bool() {
					if rl.ToOne {
						p.Rels[rl.Name] = fmt.Sprintf(`{"id":"x","type":%q}`, rl.ToType)
					} else {
						p.Rels[rl.Name] = fmt.Sprintf(`[{"id":"b","type":%q},{"id":"a","type":%q}]`, rl.ToType, rl.ToType)
					}
				}
			}
			if r.Chance(2, 3) {
				p.Meta = fmt.Sprintf(`{"who":"op-%d","k%d":%d,"flag":%v}`, i, r.Intn(5), r.Intn(1000), r.Bool())
			}
			body := string(p.bytes())
			if k != "UnmarshalPartialResource" {
				body = `{"data":` + body + `,"included":[` + body + `]}`
			}
			o.Body = body
		case "RejectedBody":
			field, val := fmt.Sprintf("zz-unknown-%d", i), fmt.Sprintf(`"op-%d-%d"`, i, r.Intn(1000))
			if len(t.Attrs) > 0 {
				field, val = t.Attrs[r.Intn(len(t.Attrs))].Name, fmt.Sprintf(`{"bad":[%d]}`, r.Intn(1000))
			}
			o.Body = fmt.Sprintf(`{"data":{"type":%q,"id":"r%d","attributes":{%q:%s}}}`, t.Name, i, field, val)
		case "New+Set", "Types[i].New":
			o.Type = t.Name
			o.Res = genResource(r, t, genID(r))
		case "MarshalDocument":
			d := &DocSpec{Schema: s, Prefix: "/", RelData: map[string][]string{}, Frags: []string{t.Name}}
			for j := r.Range(1, 4); j > 0; j-- {
				tt := &s.Types[r.Intn(len(s.Types))]
				d.Primary = append(d.Primary, genResource(r, tt, fmt.Sprint("p", j)))
				d.Included = append(d.Included, genResource(r, tt, fmt.Sprint("i", j)))
			}
			for _, tt := range s.Types {
				d.RelData[tt.Name] = tt.RelNames()
			}
			o.Doc = d
		case "Collect":
			o.Type = t.Name
			d := &DocSpec{Schema: s, Prefix: "/", RelData: map[string][]string{t.Name: t.RelNames()}, Frags: []string{t.Name}}
			for j := r.Range(1, 4); j > 0; j-- {
				d.Primary = append(d.Primary, genResource(r, t, fmt.Sprint("c", j)))
			}
			o.Doc = d
		case "GetType", "HasType":
			o.Names = shuffleStrings(r, names)
		}
		ops = append(ops, o)
	}
	return ops
}

func (m c12) Case(c *Ctx, r *RNG) {
	if raceEnabled {
		c.Counters["race_enabled_workers"] = 1
	} else {
		c.Counters["race_disabled_workers"] = 1
	}
	s := genSchema(r, genOpts{MaxTypes: 4, MaxAttrs: 5, MaxRels: 3, AllowWrap: true, Coherent: true})
	if r.Chance(1, 3) {
		// schemas with many types (lookups may be indexed differently above some size)
		s = genSchema(r, genOpts{MaxTypes: 14, MaxAttrs: 3, MaxRels: 2, AllowWrap: true, Coherent: true})
		for len(s.Types) < 8 {
			s = genSchema(r, genOpts{MaxTypes: 14, MaxAttrs: 3, MaxRels: 2, AllowWrap: true, Coherent: true})
		}
		c.Count("schemas_with_8_or_more_types")
	}
	for i := range s.Types {
		if !s.Types[i].Wrapped && r.Chance(1, 3) {
			s.Types[i].NoFromType = true // relationships declared without FromType (one-way relationships need none)
		}
	}
	if r.Chance(1, 3) {
		// "once a schema has been built" does not say it passes Check: a relationship to a type the schema lacks
		ti := r.Intn(len(s.Types))
		s.Types[ti].Rels = append(s.Types[ti].Rels, RelSpec{Name: "zz-ghost", ToOne: r.Bool(), ToType: "ghost"})
		c.Count("schemas_with_dangling_relationship")
	}
	if r.Chance(1, 3) {
		// ... or half of a two-way relationship: it names an inverse that the (existing) target type never declared
		ti := r.Intn(len(s.Types))
		s.Types[ti].Rels = append(s.Types[ti].Rels, RelSpec{Name: "zz-half", ToOne: r.Bool(), ToType: s.Types[r.Intn(len(s.Types))].Name, ToName: "zz-never-declared", FromOne: r.Bool()})
		c.Count("schemas_with_half_a_two_way_relationship")
	}
	var schema *jsonapi.Schema
	if pi := Guard(func() { schema = buildSchema(s) }); pi != nil {
		c.Violate("panic@"+pi.Frame+"/build-schema", "%s", pi)
		return
	}
	maxG := 16
	nops := c.Pick(12, 24)
	lists := make([][]c12op, maxG)
	for g := range lists {
		// prologue: every goroutine first creates a resource of every type, so that the FIRST use of each
		// type's constructor happens concurrently in the cold phase
		for ti := range s.Types {
			t := &s.Types[ti]
			kind := "New+Set"
			if g%2 == 1 {
				kind = "Types[i].New"
			}
			lists[g] = append(lists[g], c12op{Kind: kind, Type: t.Name, Res: genResource(r, t, genID(r))})
		}
		lists[g] = append(lists[g], m.genOps(r, s, nops)...)
	}
	// Phase 0 (cold): brand-new schemas whose first users are concurrent goroutines. Nothing has touched
	// these schemas before, so lazily initialised shared state is initialised under contention.
	coldRounds := c.Pick(3, 8)
	cold := make([][][]string, coldRounds)
	for round := 0; round < coldRounds; round++ {
		var fresh *jsonapi.Schema
		if pi := Guard(func() { fresh = buildSchemaPlain(s) }); pi != nil {
			c.Violate("panic@"+pi.Frame+"/build-schema", "%s", pi)
			return
		}
		fpFresh := schemaFingerprint(fresh)
		G := []int{16, 8, 2, 16, 4, 16, 8, 16}[round%8]
		prev := runtime.GOMAXPROCS([]int{16, 2, 16, 4}[round%4])
		res := make([][]string, G)
		start := make(chan struct{})
		var wg sync.WaitGroup
		for g := 0; g < G; g++ {
			wg.Add(1)
			go func(g int) {
				defer wg.Done()
				buf := make([]string, 0, len(lists[g]))
				keep := &c12keeper{}
				<-start
				for i := range lists[g] {
					op := &lists[g][i]
					var out string
					var again func() string
					if pi := Guard(func() { out, again = op.exec2(s, fresh) }); pi != nil {
						out = "panic:" + pi.Frame + ":" + panicClass(pi.Val)
					}
					buf = append(buf, keep.push(out, again, op.Kind))
				}
				res[g] = buf
			}(g)
		}
		close(start)
		wg.Wait()
		runtime.GOMAXPROCS(prev)
		cold[round] = res
		c.Count("cold_rounds")
		for g := 0; g < G; g++ {
			c.Add("concurrent_ops", len(res[g]))
			c.Add("evaluations", len(res[g]))
		}
		if fp := schemaFingerprint(fresh); fp != fpFresh {
			c.Violate("schema-modified-concurrently/cold-start", "a brand-new schema changed while %d goroutines used it for the first time: %s -> %s", G, clip(fpFresh, 1200), clip(fp, 1200))
			return
		}
	}
	if c.Index < 1 {
		c.Sample(map[string]any{"schema": s, "goroutine_0_ops": lists[0]})
	}
	desc := func() string { return clip(jsonStr(s), 2000) }
	// Phase A: sequential baseline + per-op schema fingerprint
	base := make([][]string, maxG)
	fp0 := schemaFingerprint(schema)
	for g := range lists {
		base[g] = make([]string, len(lists[g]))
		keep := &c12keeper{}
		for i := range lists[g] {
			op := &lists[g][i]
			var res string
			var again func() string
			if pi := Guard(func() { res, again = op.exec2(s, schema) }); pi != nil {
				res = "panic:" + pi.Frame + ":" + panicClass(pi.Val)
				c.Count("baseline_panics") // other properties judge panics
			}
			if again != nil {
				c.Count("results_kept_and_read_again")
			}
			if kept := keep.push(res, again, op.Kind); strings.HasPrefix(kept, "EARLIER-RESULT-CHANGED/") {
				c.Violate("earlier-result-changed/sequential/"+strings.TrimPrefix(strings.SplitN(kept, ":", 2)[0], "EARLIER-RESULT-CHANGED/"), "an object returned by an earlier call changed after later calls on the same schema (one goroutine): %s", kept)
				return
			}
			base[g][i] = res
			c.Count("sequential_ops")
			c.Count("evaluations")
			if fp := schemaFingerprint(schema); fp != fp0 {
				c.Violate("schema-modified-by/"+op.Kind, "the schema changed during a sequential %s: before %s\nafter %s", op.Kind, clip(fp0, 1500), clip(fp, 1500))
				return
			}
		}
	}
	// cold results against the sequential baseline
	for round := range cold {
		for g := range cold[round] {
			for i, got := range cold[round][g] {
				if strings.HasPrefix(got, "EARLIER-RESULT-CHANGED/") {
					c.Violate("earlier-result-changed/concurrent", "cold round %d goroutine %d: %s", round, g, got)
					return
				}
				if got != base[g][i] {
					c.Violate("concurrent-result-differs/cold-start/"+lists[g][i].Kind, "cold round %d goroutine %d got %q for %s, sequentially %q; schema %s", round, g, clip(got, 300), lists[g][i].Kind, clip(base[g][i], 300), desc())
					return
				}
			}
		}
	}
	// Phase B
	reps := c.Pick(15, 30)
	kindsSeen := map[string]bool{}
	for _, G := range []int{2, 4, 8, 16} {
		for _, procs := range []int{2, 16} {
			if !c.Thorough() && ((G == 4 && procs == 2) || (G == 8 && procs == 16)) {
				continue
			}
			prev := runtime.GOMAXPROCS(procs)
			results := make([][]string, G) // private buffers: one slice per goroutine, written only by its owner
			start := make(chan struct{})
			var wg sync.WaitGroup
			for g := 0; g < G; g++ {
				wg.Add(1)
				go func(g int) {
					defer wg.Done()
					buf := make([]string, 0, reps*len(lists[g]))
					keep := &c12keeper{}
					<-start
					for rep := 0; rep < reps; rep++ {
						for i := range lists[g] {
							op := &lists[g][i]
							var res string
							var again func() string
							if pi := Guard(func() { res, again = op.exec2(s, schema) }); pi != nil {
								res = "panic:" + pi.Frame + ":" + panicClass(pi.Val)
							}
							buf = append(buf, keep.push(res, again, op.Kind))
						}
					}
					results[g] = buf
				}(g)
			}
			close(start)
			wg.Wait()
			runtime.GOMAXPROCS(prev)
			// Phase C
			for g := 0; g < G; g++ {
				for j, got := range results[g] {
					i := j % len(lists[g])
					if strings.HasPrefix(got, "EARLIER-RESULT-CHANGED/") {
						c.Violate("earlier-result-changed/concurrent", "goroutine %d of %d (GOMAXPROCS %d): %s", g, G, procs, got)
						return
					}
					if got != base[g][i] {
						c.Violate("concurrent-result-differs/"+lists[g][i].Kind, "goroutine %d of %d (GOMAXPROCS %d) got %q for %s, sequentially %q; schema %s", g, G, procs, clip(got, 300), lists[g][i].Kind, clip(base[g][i], 300), desc())
						return
					}
				}
				c.Add("concurrent_ops", len(results[g]))
				c.Add("evaluations", len(results[g]))
			}
			if fp := schemaFingerprint(schema); fp != fp0 {
				c.Violate("schema-modified-concurrently", "schema fingerprint changed after %d goroutines: %s -> %s", G, clip(fp0, 1200), clip(fp, 1200))
				return
			}
			c.Count(fmt.Sprintf("runs/G%d", G))
			for a := 0; a < G; a++ {
				for b := a + 1; b < G; b++ {
					for _, oa := range lists[a] {
						for _, ob := range lists[b] {
							k1, k2 := oa.Kind, ob.Kind
							if k1 > k2 {
								k1, k2 = k2, k1
							}
							c.SetAdd("op-pair", k1+"|"+k2)
						}
					}
				}
			}
		}
	}
	for g := range lists {
		for _, o := range lists[g] {
			kindsSeen[o.Kind] = true
		}
	}
	if len(kindsSeen) >= 3 {
		c.Nontrivial(jsonStr(s) + jsonStr(lists))
	}
}

// Directed: schemas assembled by hand (type literals, Type.AddAttr / Type.AddRel), which can hold what the
// validated builders never produce: a soft type in which one name is both an attribute and a relationship, a
// relationship without FromType, nil maps. Schema.Check accepts them, so they are schemas "that have been built";
// the read-only operations must leave them alone too. (No marshaling here: a resource of a type with such a pair
// cannot be marshaled by the unchanged library either.)
func (m c12) Directed(c *Ctx) {
	c.Name = "hand-assembled-schemas"
	build := func() *jsonapi.Schema {
		users := jsonapi.Type{Name: "users", Attrs: map[string]jsonapi.Attr{"name": {Name: "name", Type: jsonapi.AttrTypeString}}, Rels: map[string]jsonapi.Rel{}}
		notes := jsonapi.Type{Name: "notes",
			Attrs: map[string]jsonapi.Attr{"owner": {Name: "owner", Type: jsonapi.AttrTypeString}, "text": {Name: "text", Type: jsonapi.AttrTypeString, Nullable: true}},
			Rels:  map[string]jsonapi.Rel{"owner": {FromName: "owner", ToOne: true, ToType: "users"}, "readers": {FromType: "notes", FromName: "readers", ToType: "users"}}}
		bare := jsonapi.Type{Name: "bare"}
		_ = bare.AddAttr(jsonapi.Attr{Name: "n", Type: jsonapi.AttrTypeInt})
		_ = bare.AddRel(jsonapi.Rel{FromName: "n2", ToType: "bare"})
		return &jsonapi.Schema{Types: []jsonapi.Type{users, notes, bare}}
	}
	ops := []struct {
		name string
		run  func(s *jsonapi.Schema) string
	}{
		{"UnmarshalResource", func(s *jsonapi.Schema) string {
			res, err := jsonapi.UnmarshalResource([]byte(`{"type":"notes","id":"n1","attributes":{"owner":"Ann","text":null},"relationships":{"owner":{"data":{"type":"users","id":"u1"}},"readers":{"data":[{"type":"users","id":"u2"}]}}}`), s)
			if err != nil {
				return "error"
			}
			return fmt.Sprint(res.Get("id"), len(res.Attrs()), len(res.Rels()), res.Get("owner"), res.Get("readers"))
		}},
		{"UnmarshalDocument", func(s *jsonapi.Schema) string {
			doc, err := jsonapi.UnmarshalDocument([]byte(`{"data":[{"type":"notes","id":"n1","attributes":{"owner":"Ann"}},{"type":"bare","id":"b1","attributes":{"n":3}}]}`), s)
			if err != nil {
				return "error"
			}
			col, _ := doc.Data.(jsonapi.Collection)
			if col == nil {
				return "no collection"
			}
			out := ""
			for i := 0; i < col.Len(); i++ {
				r := col.At(i)
				out += fmt.Sprint(r.GetType().Name, r.Get("id"), len(r.Attrs()), len(r.Rels()), ";")
			}
			return out
		}},
		{"UnmarshalPartialResource", func(s *jsonapi.Schema) string {
			res, err := jsonapi.UnmarshalPartialResource([]byte(`{"type":"notes","id":"n2","attributes":{"owner":"Bob"},"relationships":{"readers":{"data":[]}}}`), s)
			if err != nil {
				return "error"
			}
			return fmt.Sprint(res.Get("id"), len(res.Attrs()), len(res.Rels()))
		}},
		{"New", func(s *jsonapi.Schema) string {
			out := ""
			for _, n := range []string{"notes", "users", "bare"} {
				typ := s.GetType(n)
				res := typ.New()
				res.Set("id", "x")
				res.Set("owner", "Zed")
				res.Set("n", 4)
				_ = res.Get("owner")
				out += fmt.Sprint(res.GetType().Name, len(res.Attrs()), len(res.Rels()), res.Get("id"), ";")
			}
			return out
		}},
		{"NewURLFromRaw", func(s *jsonapi.Schema) string {
			out := ""
			for _, raw := range []string{"/notes/n1/owner", "/notes/n1/relationships/readers", "/notes?fields[notes]=owner,text,readers&include=owner,readers&sort=owner,-text", "/bare/b1/n2"} {
				u, err := jsonapi.NewURLFromRaw(s, raw)
				if err != nil {
					out += "error;"
					continue
				}
				out += u.String() + ";"
			}
			return out
		}},
		{"Queries", func(s *jsonapi.Schema) string {
			return fmt.Sprint(s.HasType("notes"), s.HasType("nope"), len(s.GetType("notes").Rels), len(s.GetType("notes").Attrs), len(s.Rels()), len(s.Check()))
		}},
	}
	// sequentially: fingerprint after each op
	schema := build()
	fp0 := schemaFingerprint(schema)
	base := make([]string, len(ops))
	for round := 0; round < 2; round++ {
		for i, op := range ops {
			var res string
			if pi := Guard(func() { res = op.run(schema) }); pi != nil {
				res = "panic:" + pi.Frame + ":" + panicClass(pi.Val)
				c.Count("baseline_panics")
			}
			c.Count("hand_assembled_sequential_ops")
			if fp := schemaFingerprint(schema); fp != fp0 {
				c.Violate("schema-modified-by/"+op.name+"/hand-assembled", "the hand-assembled schema changed during a sequential %s: before %s\nafter %s", op.name, clip(fp0, 1500), clip(fp, 1500))
				return
			}
			if round == 0 {
				base[i] = res
			} else if res != base[i] {
				c.Violate("result-differs-second-time/"+op.name+"/hand-assembled", "%s gave %q, then %q on the same schema", op.name, clip(base[i], 300), clip(res, 300))
				return
			}
		}
	}
	// concurrently, on brand-new copies
	for round := 0; round < c.Pick(4, 12); round++ {
		fresh := build()
		const G = 8
		got := make([][]string, G)
		var start, done sync.WaitGroup
		start.Add(1)
		for g := 0; g < G; g++ {
			done.Add(1)
			go func(g int) {
				defer done.Done()
				got[g] = make([]string, len(ops))
				start.Wait()
				for k := 0; k < len(ops)*3; k++ {
					i := (k + g) % len(ops)
					func() {
						defer func() {
							if rec := recover(); rec != nil {
								got[g][i] = "panic"
							}
						}()
						got[g][i] = ops[i].run(fresh)
					}()
				}
			}(g)
		}
		start.Done()
		done.Wait()
		c.Count("hand_assembled_concurrent_rounds")
		if fp := schemaFingerprint(fresh); fp != fp0 {
			c.Violate("schema-modified-concurrently/hand-assembled", "the hand-assembled schema changed while %d goroutines used it: %s -> %s", G, clip(fp0, 1200), clip(fp, 1200))
			return
		}
		for g := range got {
			for i := range ops {
				if got[g][i] != base[i] && !strings.HasPrefix(base[i], "panic:") {
					c.Violate("concurrent-result-differs/"+ops[i].name+"/hand-assembled", "goroutine %d got %q, sequentially %q", g, clip(got[g][i], 300), clip(base[i], 300))
					return
				}
			}
		}
	}
}
