package main

import (
	"fmt"
	"math/big"
	"strings"
)

// Name pools are deliberately tiny so that duplicates, prefixes and
// concatenation collisions are the norm.
var typeNamePool = []string{"a", "b", "ab", "a_b", "a-b", "t1", "t2", "author", "authors", "articles", "users", "c", "bc", "x9", "café", "A", "Users", "Ab"}
var fieldNamePool = []string{"a", "b", "ab", "a_b", "a-b", "author", "authors", "f1", "f2", "name", "title", "c", "bc", "rel", "z", "n0", "created-at", "k_1", "Name", "AB", "Z", "prénom", "名前", "first name", "type", "meta"}

func genDistinctNames(r *RNG, pool []string, n int) []string {
	p := r.Perm(len(pool))
	if n > len(pool) {
		n = len(pool)
	}
	out := make([]string, n)
	for i := 0; i < n; i++ {
		out[i] = pool[p[i]]
	}
	return out
}

// ---- value pools

var stringPool = []string{
	"", " ", "a", "b", "ab", "abc", "a b", "\x00", "a\x00b", "é", "日本語", "😀", "a😀b", "<>&", "<script>&amp;", "\"", "\\", "\"\\\"", "\n\t\r",
	"<nil>", "null", "nil", "true", "0", "-1", "a&b=c", "a/b?c#d", "%41", "50%", "a+b", "  ", "\u007f", "\u0080", "�", "ÿ", "A", "B", "a,b", "[x]", "{}",
	strings.Repeat("k", 1024), "ab́", "\U0010ffff",
	// texts that look like patterns: a value is compared, never matched
	"*", "a*", "ab*", "a%", "a_", "a?", "a.*", "^a", "[a-b]",
	// texts that LOOK like JSON escapes (a literal backslash followed by u0026 etc.): any textual post-processing of
	// encoded output instead of encoding the value breaks on them
	"\\u0026", "\\u003c", "a\\u003eb", "\\\\u0026", "\\n", "\\\"", "\\u2028", "&amp;\\u0026<", "%5Cu003c",
}

var idPool = []string{"1", "2", "3", "10", "a", "b", "ab", "id-1", "id_2", "A", "é", "日本", "a b", "a/b", "a?b", "a#b", "a%b", "a&b", "a+b", "\"q\"", "<i>", "x\\y", "\x00", "😀", "0", "-", ".", "~", "a,b", "[1]",
	"01", "007", "1a", "a*", "*", "id-1*", "+7", "1e3", "0x1", "2 ", " 2", "-0", "9", "10a", "..", "a//b", "./k", "\\u0026", "\\u003c1", "s1", "s", "b1", "_1", "1_"}

var safeIDPool = []string{"1", "2", "3", "10", "a", "b", "ab", "id-1", "id_2", "A", "x9", "0", "zz", "k.1", "~t"}

func genString(r *RNG) string {
	switch r.Intn(10) {
	case 0, 1, 2, 3, 4, 5:
		return stringPool[r.Intn(len(stringPool))]
	case 6:
		// random code points incl. multi-byte
		n := r.Intn(6)
		var sb strings.Builder
		for i := 0; i < n; i++ {
			switch r.Intn(5) {
			case 0:
				sb.WriteRune(rune(r.Intn(0x80)))
			case 1:
				sb.WriteRune(rune(0x80 + r.Intn(0x780)))
			case 2:
				c := rune(0x800 + r.Intn(0xF800))
				if c >= 0xD800 && c <= 0xDFFF {
					c = 0x4e00
				}
				sb.WriteRune(c)
			case 3:
				sb.WriteRune(rune(0x10000 + r.Intn(0x100000)))
			default:
				sb.WriteByte("<>&\"\\/'= ,"[r.Intn(10)])
			}
		}
		return sb.String()
	case 7:
		return stringPool[r.Intn(len(stringPool))] + stringPool[r.Intn(len(stringPool))]
	default:
		return fmt.Sprint(r.Intn(1000))
	}
}

func genID(r *RNG) string {
	if r.Chance(1, 4) {
		return genString(r)
	}
	return idPool[r.Intn(len(idPool))]
}

func genBigInKind(r *RNG, k int) *big.Int {
	lo, hi := intRange(k)
	one := big.NewInt(1)
	switch r.Intn(12) {
	case 0:
		return lo
	case 1:
		return hi
	case 2:
		return new(big.Int).Add(lo, one)
	case 3:
		return new(big.Int).Sub(hi, one)
	case 4:
		return big.NewInt(0)
	case 5:
		if lo.Sign() < 0 {
			return big.NewInt(-1)
		}
		return big.NewInt(1)
	case 6:
		return big.NewInt(1)
	case 7, 8:
		// 2^k, 2^k±1 inside the range
		bits := uint(r.Intn(64))
		v := new(big.Int).Lsh(one, bits)
		switch r.Intn(3) {
		case 0:
			v.Add(v, one)
		case 1:
			v.Sub(v, one)
		}
		if lo.Sign() < 0 && r.Bool() {
			v.Neg(v)
		}
		if v.Cmp(lo) >= 0 && v.Cmp(hi) <= 0 {
			return v
		}
		return hi
	default:
		// uniform-ish in range
		span := new(big.Int).Sub(hi, lo)
		span.Add(span, one)
		x := new(big.Int).SetUint64(r.Uint64())
		x.Lsh(x, 64).Or(x, new(big.Int).SetUint64(r.Uint64()))
		x.Mod(x, span)
		if r.Bool() { // small magnitudes are as interesting as huge ones
			x.Mod(x, big.NewInt(300))
			if lo.Sign() < 0 {
				x.Sub(x, big.NewInt(150))
				if x.Cmp(lo) < 0 {
					return lo
				}
				return x
			}
			if x.Cmp(hi) > 0 {
				return hi
			}
			return x
		}
		return x.Add(x, lo)
	}
}

var bytesPool = [][]byte{{}, {0}, {1}, {255}, {1, 2}, {2, 1}, {1, 2, 3}, {1, 2, 4}, {1}, {0, 0}, {0xff, 0xfe}, {0x7f, 0x80}, []byte("abc"), []byte("ab"), []byte("abd"), {0xfb, 0xff}, {0x00, 0x10, 0x83}, {0x3e, 0x3f}}

func genBytes(r *RNG) []byte {
	if r.Chance(3, 4) {
		return append([]byte{}, bytesPool[r.Intn(len(bytesPool))]...)
	}
	n := r.Intn(40)
	b := make([]byte, n)
	for i := range b {
		b[i] = byte(r.Uint64())
	}
	return b
}

// genTime gives (sec, nsec, offsetMinutes) with local year in 1..9999.
func genTime(r *RNG) (int64, int, int) {
	const minSec, maxSec = -62135596800, 253402300799 // 0001-01-01T00:00:00Z .. 9999-12-31T23:59:59Z
	var sec int64
	switch r.Intn(8) {
	case 0:
		sec = minSec
	case 1:
		sec = maxSec
	case 2:
		sec = 0
	case 3:
		sec = -1
	case 4:
		sec = 1574223421
	case 5:
		sec = minSec + int64(r.Intn(100000))
	case 6:
		sec = maxSec - int64(r.Intn(100000))
	default:
		sec = minSec + int64(r.Uint64()%uint64(maxSec-minSec+1))
	}
	nsec := 0
	switch r.Intn(6) {
	case 0:
		nsec = 999999999
	case 1:
		nsec = 1
	case 2:
		nsec = 500000000
	case 3:
		nsec = r.Intn(1000) * 1000000
	case 4:
		nsec = r.Intn(1000000000)
	}
	off := 0
	switch r.Intn(6) {
	case 0:
		off = -14 * 60
	case 1:
		off = 14 * 60
	case 2:
		off = -5 * 60
	case 3:
		off = 5*60 + 30
	case 4:
		off = r.Range(-14*60, 14*60)
	}
	// keep the local year inside 1..9999 so that RFC 3339 can carry it
	local := sec + int64(off)*60
	if local < minSec || local > maxSec {
		off = 0
	}
	// the edge of the domain: a local year of 9999 (or 1) whose instant, read in UTC, is in year 10000 (or 0)
	if off != 0 && r.Chance(1, 6) {
		if off < 0 {
			sec = maxSec - int64(r.Intn(-off*60)) - int64(off)*60
		} else {
			sec = minSec + int64(r.Intn(off*60)) - int64(off)*60
		}
	}
	return sec, nsec, off
}

// genVal draws a value of (kind, nullable) from the boundary-biased pools.
func genVal(r *RNG, k int, null bool) Val {
	v := Val{K: k, Null: null}
	if null && r.Chance(1, 4) {
		if r.Bool() {
			v.Nil = true
		} else {
			v.UNil = true
		}
		return v
	}
	switch {
	case k == KString:
		v.S = genString(r)
	case isIntKind(k):
		v.I = genBigInKind(r, k).String()
	case k == KBool:
		v.B = r.Bool()
	case k == KTime:
		v.Sec, v.Nsec, v.Off = genTime(r)
	case k == KBytes:
		v.Bytes = genBytes(r)
		if r.Chance(1, 10) {
			v.Bytes, v.NilSlice = nil, true
		}
	}
	return v
}

// ---- types / schemas / resources

type genOpts struct {
	MaxTypes  int
	MaxAttrs  int
	MaxRels   int
	AllowWrap bool
	Coherent  bool // relationships point to existing types (inverse pairs consistent)
}

// genSchema generates a schema spec of 1..MaxTypes types.
func genSchema(r *RNG, o genOpts) *SchemaSpec {
	nt := r.Range(1, o.MaxTypes)
	names := genDistinctNames(r, typeNamePool, nt)
	s := &SchemaSpec{}
	for _, n := range names {
		t := TypeSpec{Name: n, Wrapped: o.AllowWrap && r.Bool(), NilMaps: r.Chance(1, 4)}
		na := r.Range(0, o.MaxAttrs)
		if r.Chance(1, 8) {
			na = o.MaxAttrs + 6 // more than 8 fields: more distinct map iteration orders
		}
		fnames := genDistinctNames(r, fieldNamePool, len(fieldNamePool))
		if na > len(fnames)-o.MaxRels {
			na = len(fnames) - o.MaxRels
		}
		for i := 0; i < na; i++ {
			t.Attrs = append(t.Attrs, AttrSpec{Name: fnames[i], Kind: allKinds[r.Intn(len(allKinds))], Null: r.Bool()})
		}
		nr := r.Range(0, o.MaxRels)
		for i := 0; i < nr; i++ {
			t.Rels = append(t.Rels, RelSpec{Name: fnames[na+i], ToOne: r.Bool(), ToType: names[r.Intn(len(names))]})
		}
		if !o.Coherent && !t.Wrapped && r.Chance(1, 5) {
			t.NoFromType = true // relationships declared without naming their owner (a one-way relationship needs none)
		}
		s.Types = append(s.Types, t)
	}
	if o.Coherent {
		// turn some relationships into consistent two-way pairs
		for ti := range s.Types {
			for ri := range s.Types[ti].Rels {
				rel := &s.Types[ti].Rels[ri]
				if rel.ToName != "" || !r.Chance(1, 3) {
					continue
				}
				tt := s.Type(rel.ToType)
				// find a free partner in the target type that points back and is not the same relationship
				for pi := range tt.Rels {
					p := &tt.Rels[pi]
					if p.ToName == "" && p.ToType == s.Types[ti].Name && !(tt.Name == s.Types[ti].Name && p.Name == rel.Name) {
						rel.ToName, p.ToName = p.Name, rel.Name
						rel.FromOne, p.FromOne = p.ToOne, rel.ToOne
						break
					}
				}
			}
		}
	}
	return s
}

// genAllKindsType returns a type with one attribute of each of the 28 kinds.
func genAllKindsType(name string, wrapped bool) TypeSpec {
	t := TypeSpec{Name: name, Wrapped: wrapped}
	for _, k := range allKinds {
		for _, null := range []bool{false, true} {
			n := kindNames[k]
			if null {
				n = "n" + n
			}
			t.Attrs = append(t.Attrs, AttrSpec{Name: n, Kind: k, Null: null})
		}
	}
	return t
}

// genToMany draws a list of distinct related IDs.
func genToMany(r *RNG, maxN int) []string {
	n := r.Intn(maxN + 1)
	ids := []string{}
	if r.Chance(1, 40) {
		// long lists: around small powers of two and well beyond any plausible fixed-size buffer
		n = []int{15, 16, 17, 18, 31, 33, 64, 65, 300}[r.Intn(9)]
		for i := 0; i < n; i++ {
			ids = append(ids, fmt.Sprintf("%s%d", []string{"", "k", "0"}[i%3], i))
		}
		return dedup(ids)
	}
	for i := 0; i < n; i++ {
		ids = append(ids, genID(r))
	}
	return dedup(ids)
}

// genResource draws a resource of type t.
func genResource(r *RNG, t *TypeSpec, id string) *ResSpec {
	rs := &ResSpec{Type: t.Name, ID: id, Attrs: map[string]Val{}, ToOne: map[string]string{}, ToMany: map[string][]string{}}
	for _, a := range t.Attrs {
		if r.Chance(1, 8) {
			continue // never set: reads its zero value
		}
		rs.Attrs[a.Name] = genVal(r, a.Kind, a.Null)
	}
	for _, rel := range t.Rels {
		if r.Chance(1, 8) {
			continue
		}
		if rel.ToOne {
			if r.Chance(1, 4) {
				rs.ToOne[rel.Name] = ""
			} else {
				rs.ToOne[rel.Name] = genID(r)
			}
		} else {
			rs.ToMany[rel.Name] = genToMany(r, 5)
		}
	}
	// relationship names where one is a prefix of another ("a"/"ab", "author"/"authors"): give the shorter one an ID
	// that starts with the rest of the longer name, and the longer one the remainder, so that any key built by plain
	// concatenation of name and ID is ambiguous
	for _, p := range t.Rels {
		for _, q := range t.Rels {
			if p.ToOne || q.ToOne || len(q.Name) <= len(p.Name) || !strings.HasPrefix(q.Name, p.Name) || !r.Chance(1, 2) {
				continue
			}
			x := safeIDPool[r.Intn(len(safeIDPool))]
			rs.ToMany[p.Name] = dedup(append(rs.ToMany[p.Name], q.Name[len(p.Name):]+x))
			rs.ToMany[q.Name] = dedup(append(rs.ToMany[q.Name], x))
		}
	}
	return rs
}

func (rs *ResSpec) canon() string { return jsonStr(rs) }

func (rs *ResSpec) nontrivial(t *TypeSpec) bool {
	for _, a := range t.Attrs {
		if v, ok := rs.Attrs[a.Name]; ok && v.String() != zeroVal(a.Kind, a.Null).String() {
			return true
		}
	}
	for _, v := range rs.ToOne {
		if v != "" {
			return true
		}
	}
	for _, v := range rs.ToMany {
		if len(v) > 0 {
			return true
		}
	}
	return false
}
