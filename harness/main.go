package main

import (
	"bufio"
	"encoding/binary"
	"encoding/json"
	"fmt"
	"os"
	"os/exec"
	"path/filepath"
	"runtime"
	"sort"
	"strconv"
	"strings"
	"sync"
	"syscall"
	"time"
)

const verifRoot = "/verif"

// outRoot is where run directories, replays and evidence go. It is /verif except when
// tools/check-against evaluates a scratch copy of the repository (VERIF_OUT), so that such
// runs never touch the evidence of the registered checks.
var outRoot = func() string {
	if d := os.Getenv("VERIF_OUT"); d != "" {
		return d
	}
	return verifRoot
}()

// Optional monitor extensions.
type workerEnver interface {
	WorkerEnv(outdir string, batch int) []string
}
type postBatcher interface {
	// PostBatch may add violations / counters from files the worker left behind.
	PostBatch(outdir string, batch int, res *workerResult)
}
type parentChecker interface {
	// ParentCheck judges facts that only the merged view of all child processes shows.
	ParentCheck(tier string, counters map[string]int64, sets map[string]map[string]struct{}) []Violation
}
type workerBinarier interface {
	// WorkerBinary may name another executable for a batch ("" = this one).
	WorkerBinary(tier string, batch int) string
}
type evidenceExtra interface {
	EvidenceExtra(tier string, counters map[string]int64, sets map[string]map[string]struct{}) map[string]any
}

type knownFinding struct {
	Property  string `json:"property"`
	Signature string `json:"signature"`
	Status    string `json:"status"` // "known" | "fixed"
	Commit    string `json:"commit,omitempty"`
	What      string `json:"what"`
}

type replayFile struct {
	Property  string `json:"property"`
	Tier      string `json:"tier"`
	Seed      uint64 `json:"seed"`
	Batch     int    `json:"batch"`
	Index     int    `json:"index"`
	Name      string `json:"name,omitempty"`
	Signature string `json:"signature"`
	Detail    string `json:"detail"`
	How       string `json:"how_to_replay"`
}

func main() {
	if len(os.Args) < 2 {
		usage()
	}
	switch os.Args[1] {
	case "run":
		if len(os.Args) != 4 {
			usage()
		}
		os.Exit(parent(os.Args[2], os.Args[3]))
	case "worker":
		if len(os.Args) != 6 {
			usage()
		}
		b, _ := strconv.Atoi(os.Args[4])
		os.Exit(worker(os.Args[2], os.Args[3], b, os.Args[5]))
	case "replay":
		if len(os.Args) != 3 {
			usage()
		}
		os.Exit(replay(os.Args[2]))
	case "list":
		for _, k := range sortedKeys(registry) {
			fmt.Println(k)
		}
	default:
		usage()
	}
}

func usage() {
	fmt.Fprintln(os.Stderr, "usage: verifmon run <ID> <quick|thorough> | worker <ID> <tier> <batch> <outdir> | replay <file> | list")
	os.Exit(64)
}

// ---------------------------------------------------------------- worker

func worker(id, tier string, batch int, outdir string) int {
	mon := registry[id]
	if mon == nil {
		fmt.Fprintln(os.Stderr, "unknown property", id)
		return 64
	}
	seed := envSeed()
	ctx := newCtx(id, tier, seed, batch)
	prog, err := os.OpenFile(filepath.Join(outdir, fmt.Sprintf("b%d.progress", batch)), os.O_CREATE|os.O_WRONLY|os.O_TRUNC, 0o644)
	if err != nil {
		fmt.Fprintln(os.Stderr, err)
		return 70
	}
	sz := mon.Size(tier)
	var evals int64
	runOne := func(name string, fn func()) {
		if pi := Guard(fn); pi != nil {
			if pi.Frame == "outside-library" {
				ctx.Counters["harness_panics"]++
				fmt.Fprintf(os.Stderr, "HARNESS PANIC in case %s: %s\n", name, pi.Val)
				ctx.Extra["harness_panic"] = name + ": " + pi.Val
			} else {
				ctx.Violate("panic@"+pi.Frame+"/"+panicClass(pi.Val)+"/unguarded", "case %s: %s", name, pi)
			}
		}
	}
	if batch == 0 {
		ctx.Index = -1
		fmt.Fprintf(prog, "directed\n")
		runOne("directed", func() { mon.Directed(ctx) })
		ctx.Name = ""
	}
	for i := 0; i < sz.Cases; i++ {
		ctx.Index = i
		prog.WriteAt([]byte(fmt.Sprintf("%-12d\n", i)), 0)
		r := NewRNG(seed, strSeed(id), uint64(batch), uint64(i))
		runOne(fmt.Sprint(i), func() { mon.Case(ctx, r) })
		evals++
	}
	prog.Close()
	if f, ok := mon.(interface{ Finish(*Ctx) }); ok {
		ctx.Index = -2
		runOne("finish", func() { f.Finish(ctx) })
	}
	if ev, ok := ctx.Counters["evaluations"]; ok { // monitors may count finer-grained executions
		evals = ev
	}
	res := workerResult{Batch: batch, Evals: evals, Counters: ctx.Counters, Violations: ctx.Violations,
		Samples: ctx.Samples, Extra: ctx.Extra, Sets: map[string][]string{}, Done: true}
	for k, m := range ctx.Sets {
		res.Sets[k] = sortedKeys(m)
	}
	hb := make([]byte, 0, 8*len(ctx.hashes))
	for h := range ctx.hashes {
		hb = binary.LittleEndian.AppendUint64(hb, h)
	}
	if err := os.WriteFile(filepath.Join(outdir, fmt.Sprintf("b%d.hashes", batch)), hb, 0o644); err != nil {
		fmt.Fprintln(os.Stderr, err)
		return 70
	}
	jb, err := json.Marshal(res)
	if err != nil {
		fmt.Fprintln(os.Stderr, "marshal result:", err)
		return 70
	}
	if err := os.WriteFile(filepath.Join(outdir, fmt.Sprintf("b%d.json", batch)), jb, 0o644); err != nil {
		fmt.Fprintln(os.Stderr, err)
		return 70
	}
	return 0
}

// ---------------------------------------------------------------- parent

func loadKnown() []knownFinding {
	var out struct {
		Findings []knownFinding `json:"findings"`
	}
	b, err := os.ReadFile(filepath.Join(verifRoot, "known_findings.json"))
	if err != nil {
		return nil
	}
	if err := json.Unmarshal(b, &out); err != nil {
		fmt.Fprintln(os.Stderr, "known_findings.json unreadable:", err)
		os.Exit(70)
	}
	return out.Findings
}

func parent(id, tier string) int {
	start := time.Now()
	mon := registry[id]
	if mon == nil || (tier != "quick" && tier != "thorough") {
		usage()
	}
	seed := envSeed()
	outdir := filepath.Join(outRoot, ".build", "run", id+"-"+tier)
	os.RemoveAll(outdir)
	if err := os.MkdirAll(outdir, 0o755); err != nil {
		fmt.Fprintln(os.Stderr, err)
		return 70
	}
	exe, _ := os.Executable()
	sz := mon.Size(tier)
	par := runtime.NumCPU()
	if par > 16 {
		par = 16
	}
	if s := os.Getenv("VERIF_PAR"); s != "" {
		if n, err := strconv.Atoi(s); err == nil && n > 0 {
			par = n
		}
	}
	watchdog := 20 * time.Minute
	if tier == "thorough" {
		watchdog = 90 * time.Minute
	}

	type outcome struct {
		batch    int
		res      *workerResult
		crashed  bool
		timedOut bool
		stderr   string
		progress string
	}
	outs := make([]outcome, sz.Batches)
	sem := make(chan struct{}, par)
	var wg sync.WaitGroup
	for b := 0; b < sz.Batches; b++ {
		wg.Add(1)
		sem <- struct{}{}
		go func(b int) {
			defer wg.Done()
			defer func() { <-sem }()
			o := outcome{batch: b}
			bin := exe
			if wb, ok := mon.(workerBinarier); ok {
				if alt := wb.WorkerBinary(tier, b); alt != "" {
					bin = alt
				}
			}
			cmd := exec.Command(bin, "worker", id, tier, strconv.Itoa(b), outdir)
			cmd.Env = append(os.Environ(), "VERIF_SEED="+strconv.FormatInt(int64(seed), 10))
			if os.Getenv("GOMAXPROCS") == "" && id != "C12" {
				// a worker is one goroutine of work; without this every one of the 16 workers starts 16 scheduler
				// threads for its garbage collector (C12 sets GOMAXPROCS itself, per phase)
				cmd.Env = append(cmd.Env, "GOMAXPROCS=2")
			}
			if we, ok := mon.(workerEnver); ok {
				cmd.Env = append(cmd.Env, we.WorkerEnv(outdir, b)...)
			}
			errf, _ := os.Create(filepath.Join(outdir, fmt.Sprintf("b%d.stderr", b)))
			cmd.Stdout = errf
			cmd.Stderr = errf
			cmd.SysProcAttr = &syscall.SysProcAttr{Setpgid: true}
			if err := cmd.Start(); err != nil {
				o.crashed = true
				o.stderr = err.Error()
				outs[b] = o
				return
			}
			done := make(chan error, 1)
			go func() { done <- cmd.Wait() }()
			select {
			case <-done:
			case <-time.After(watchdog):
				syscall.Kill(-cmd.Process.Pid, syscall.SIGQUIT)
				select {
				case <-done:
				case <-time.After(10 * time.Second):
					syscall.Kill(-cmd.Process.Pid, syscall.SIGKILL)
					<-done
				}
				o.timedOut = true
			}
			errf.Close()
			rb, err := os.ReadFile(filepath.Join(outdir, fmt.Sprintf("b%d.json", b)))
			if err == nil {
				var r workerResult
				if json.Unmarshal(rb, &r) == nil && r.Done {
					o.res = &r
				}
			}
			if o.res == nil && !o.timedOut {
				o.crashed = true
			}
			if o.res == nil {
				sb, _ := os.ReadFile(filepath.Join(outdir, fmt.Sprintf("b%d.stderr", b)))
				o.stderr = string(sb)
				pb, _ := os.ReadFile(filepath.Join(outdir, fmt.Sprintf("b%d.progress", b)))
				o.progress = strings.TrimSpace(string(pb))
			}
			if o.res != nil {
				if pb, ok := mon.(postBatcher); ok {
					pb.PostBatch(outdir, b, o.res)
				}
			}
			outs[b] = o
		}(b)
	}
	wg.Wait()

	// merge
	counters := map[string]int64{}
	sets := map[string]map[string]struct{}{}
	hashes := map[uint64]struct{}{}
	var samples []any
	var viols []Violation
	extra := map[string]any{}
	var evals int64
	var inconclusive []string
	for _, o := range outs {
		if o.timedOut {
			inconclusive = append(inconclusive, fmt.Sprintf("batch %d: watchdog fired (case %s)", o.batch, o.progress))
			continue
		}
		if o.crashed {
			idx := -1
			if n, err := strconv.Atoi(o.progress); err == nil {
				idx = n
			}
			cls := fatalClass(o.stderr)
			if cls == "" {
				inconclusive = append(inconclusive, fmt.Sprintf("batch %d: worker died without a result (case %s): %s", o.batch, o.progress, clip(o.stderr, 300)))
				continue
			}
			viols = append(viols, Violation{Sig: "fatal/" + cls, Detail: clip(o.stderr, 3000), Batch: o.batch, Index: idx})
			counters["fatal_worker_deaths"]++
			continue
		}
		r := o.res
		evals += r.Evals
		for k, v := range r.Counters {
			counters[k] += v
		}
		for k, ms := range r.Sets {
			if sets[k] == nil {
				sets[k] = map[string]struct{}{}
			}
			for _, m := range ms {
				sets[k][m] = struct{}{}
			}
		}
		viols = append(viols, r.Violations...)
		if len(samples) < 6 {
			for _, s := range r.Samples {
				if len(samples) < 6 {
					samples = append(samples, s)
				}
			}
		}
		for k, v := range r.Extra {
			extra[k] = v
		}
		hb, _ := os.ReadFile(filepath.Join(outdir, fmt.Sprintf("b%d.hashes", o.batch)))
		for i := 0; i+8 <= len(hb); i += 8 {
			hashes[binary.LittleEndian.Uint64(hb[i:])] = struct{}{}
		}
	}
	for k, m := range sets {
		counters["set_size/"+k] = int64(len(m))
	}
	if pc, ok := mon.(parentChecker); ok && len(inconclusive) == 0 {
		viols = append(viols, pc.ParentCheck(tier, counters, sets)...)
	}
	if counters["harness_panics"] > 0 {
		inconclusive = append(inconclusive, fmt.Sprintf("harness panicked outside the library %d times (%v) — harness bug, no verdict", counters["harness_panics"], extra["harness_panic"]))
	}

	// classify violations
	known := loadKnown()
	status := func(sig string) (string, *knownFinding) {
		for i := range known {
			if known[i].Property == id && known[i].Signature == sig {
				return known[i].Status, &known[i]
			}
		}
		return "", nil
	}
	knownSeen := map[string]int{}
	newBySig := map[string][]Violation{}
	for _, v := range viols {
		if st, _ := status(v.Sig); st == "known" {
			knownSeen[v.Sig]++
			continue
		}
		newBySig[v.Sig] = append(newBySig[v.Sig], v)
	}
	out := bufio.NewWriter(os.Stdout)
	defer out.Flush()
	for _, sig := range sortedKeys(knownSeen) {
		_, kf := status(sig)
		fmt.Fprintf(out, "KNOWN-FINDING: property=%s %s [%s] (observed %d×)\n", id, kf.What, sig, knownSeen[sig])
	}
	nviol := 0
	var replayPaths []string
	sigs := sortedKeys(newBySig)
	for _, sig := range sigs {
		vs := newBySig[sig]
		sort.Slice(vs, func(i, j int) bool {
			if vs[i].Batch != vs[j].Batch {
				return vs[i].Batch < vs[j].Batch
			}
			return vs[i].Index < vs[j].Index
		})
		v := vs[0]
		nviol++
		dir := filepath.Join(outRoot, "replays", id)
		os.MkdirAll(dir, 0o755)
		safe := strings.NewReplacer("/", "_", " ", "_", "@", "_at_", "*", "", "(", "", ")", "", "\"", "", "'", "").Replace(sig)
		path := filepath.Join(dir, clip(safe, 100)+"-"+hashHex(fmt.Sprint(sig, seed, v.Batch, v.Index, tier))+".json")
		rf := replayFile{Property: id, Tier: tier, Seed: seed, Batch: v.Batch, Index: v.Index, Name: v.Name, Signature: sig, Detail: v.Detail,
			How: "bin/replay " + path}
		jb, _ := json.MarshalIndent(rf, "", " ")
		os.WriteFile(path, jb, 0o644)
		replayPaths = append(replayPaths, path)
		st, kf := status(sig)
		if st == "fixed" {
			fmt.Fprintf(out, "REGRESSION of a fixed finding (%s): %s\n", kf.Commit, kf.What)
		}
		fmt.Fprintf(out, "VIOLATION property=%s replay=%s\n", id, path)
		fmt.Fprintf(out, "  signature: %s (%d occurrence(s) recorded)\n  detail: %s\n", sig, len(vs), clip(v.Detail, 1500))
	}

	floors := []string{}
	if len(inconclusive) == 0 {
		floors = mon.Floors(tier, counters)
	}

	// evidence
	cov := map[string]any{
		"evaluations":               evals,
		"distinct_nontrivial":       len(hashes),
		"rule":                      mon.Rule(),
		"samples":                   samples,
		"counters":                  counters,
		"batches":                   sz.Batches,
		"child_processes":           sz.Batches,
		"cases_per_batch":           sz.Cases,
		"known_findings_observed":   knownSeen,
		"new_violation_signatures":  sigs,
		"observation_floors_missed": floors,
		"inconclusive_reasons":      inconclusive,
	}
	setSizes := map[string]int{}
	for k, m := range sets {
		setSizes[k] = len(m)
	}
	if len(setSizes) > 0 {
		cov["distinct_observed"] = setSizes
	}
	if ee, ok := mon.(evidenceExtra); ok {
		for k, v := range ee.EvidenceExtra(tier, counters, sets) {
			cov[k] = v
		}
	}
	for k, v := range extra {
		if _, dup := cov[k]; !dup {
			cov[k] = v
		}
	}
	if len(samples) == 0 {
		cov["samples"] = []any{"(no sample recorded)"}
	}
	ev := map[string]any{
		"property_id": id,
		"tier":        tier,
		"seed":        int64(seed),
		"level":       "exploration",
		"coverage":    cov,
		"assumptions": mon.Assumptions(),
		"wall_s":      time.Since(start).Seconds(),
		"violations":  nviol,
	}
	eb, _ := json.MarshalIndent(ev, "", " ")
	os.MkdirAll(filepath.Join(outRoot, "evidence"), 0o755)
	if err := os.WriteFile(filepath.Join(outRoot, "evidence", id+".json"), eb, 0o644); err != nil {
		fmt.Fprintln(os.Stderr, err)
	}

	fmt.Fprintf(out, "%s %s seed=%d: %d executions, %d distinct non-trivial cases, %d batches, %.1fs\n", id, tier, int64(seed), evals, len(hashes), sz.Batches, time.Since(start).Seconds())
	if nviol > 0 {
		return 1
	}
	if len(inconclusive) > 0 || len(floors) > 0 {
		for _, r := range inconclusive {
			fmt.Fprintf(out, "INCONCLUSIVE property=%s %s\n", id, r)
		}
		for _, r := range floors {
			fmt.Fprintf(out, "INCONCLUSIVE property=%s observation floor missed: %s\n", id, r)
		}
		return 2
	}
	fmt.Fprintf(out, "HELD property=%s on everything observed\n", id)
	return 0
}

// fatalClass recognises process-fatal runtime errors in a dead worker's output.
func fatalClass(stderr string) string {
	switch {
	case strings.Contains(stderr, "concurrent map"):
		return "concurrent-map-access"
	case strings.Contains(stderr, "stack overflow") || strings.Contains(stderr, "goroutine stack exceeds"):
		return "stack-overflow"
	case strings.Contains(stderr, "fatal error: checkptr"):
		return "checkptr"
	case strings.Contains(stderr, "out of memory"):
		return "out-of-memory"
	case strings.Contains(stderr, "fatal error:"):
		return "runtime-fatal"
	case strings.Contains(stderr, "panic:"):
		return "uncaught-panic"
	}
	return ""
}

// ---------------------------------------------------------------- replay

func replay(path string) int {
	b, err := os.ReadFile(path)
	if err != nil {
		fmt.Fprintln(os.Stderr, err)
		return 70
	}
	var rf replayFile
	if err := json.Unmarshal(b, &rf); err != nil {
		fmt.Fprintln(os.Stderr, err)
		return 70
	}
	mon := registry[rf.Property]
	if mon == nil {
		fmt.Fprintln(os.Stderr, "unknown property", rf.Property)
		return 64
	}
	ctx := newCtx(rf.Property, rf.Tier, rf.Seed, rf.Batch)
	ctx.Verbose = true
	ctx.Index = rf.Index
	fmt.Printf("replaying %s case batch=%d index=%d seed=%d (expected signature %s)\n", rf.Property, rf.Batch, rf.Index, int64(rf.Seed), rf.Signature)
	pi := Guard(func() {
		if rf.Index < 0 {
			mon.Directed(ctx)
		} else {
			mon.Case(ctx, NewRNG(rf.Seed, strSeed(rf.Property), uint64(rf.Batch), uint64(rf.Index)))
		}
	})
	if pi != nil {
		fmt.Println("uncaught:", pi)
	}
	for _, v := range ctx.Violations {
		if v.Sig == rf.Signature {
			fmt.Printf("REPRODUCED %s\n", rf.Signature)
			return 1
		}
	}
	fmt.Println("not reproduced on this tree")
	return 0
}
