package main

import (
	"crypto/sha256"
	"encoding/binary"
	"encoding/hex"
	"encoding/json"
	"fmt"
	"os"
	"runtime"
	"sort"
	"strings"
)

// Tier sizes of one monitor.
type Size struct {
	Batches int // child processes (each batch runs in its own process)
	Cases   int // generated cases per batch
}

// Monitor is one property's workload + oracle.
type Monitor interface {
	ID() string
	Size(tier string) Size
	// Rule says how cases are generated and which count as non-trivial.
	Rule() string
	// Technique names the deciding method (goes to evidence/assumptions).
	Assumptions() []string
	// Directed runs the fixed regression / witness cases (batch 0 only).
	Directed(c *Ctx)
	// Case runs generated case idx of the current batch.
	Case(c *Ctx, r *RNG)
	// Floors returns reasons why the merged counters are too thin for a verdict.
	Floors(tier string, counters map[string]int64) []string
}

// Violation is one refutation observed by a monitor.
type Violation struct {
	Sig    string `json:"signature"`
	Detail string `json:"detail"`
	Batch  int    `json:"batch"`
	Index  int    `json:"index"` // -1: directed case
	Name   string `json:"name,omitempty"`
}

// Ctx collects what one worker observed.
type Ctx struct {
	Prop  string
	Tier  string
	Seed  uint64
	Batch int
	Index int
	Name  string // name of the directed case being run

	Counters   map[string]int64
	Violations []Violation
	perSig     map[string]int
	hashes     map[uint64]struct{}
	Samples    []any
	Extra      map[string]any // monitor-specific evidence (merged by "last wins" / see parent)
	Sets       map[string]map[string]struct{}
	Verbose    bool
}

func newCtx(prop, tier string, seed uint64, batch int) *Ctx {
	return &Ctx{Prop: prop, Tier: tier, Seed: seed, Batch: batch,
		Counters: map[string]int64{}, perSig: map[string]int{}, hashes: map[uint64]struct{}{},
		Extra: map[string]any{}, Sets: map[string]map[string]struct{}{}}
}

func (c *Ctx) Count(key string)      { c.Counters[key]++ }
func (c *Ctx) Add(key string, n int) { c.Counters[key] += int64(n) }
func (c *Ctx) Thorough() bool        { return c.Tier == "thorough" }
func (c *Ctx) Pick(quick, thorough int) int {
	if c.Thorough() {
		return thorough
	}
	return quick
}

// SetAdd records a member of a named (small) set; sizes are merged by the parent.
func (c *Ctx) SetAdd(set, member string) {
	m := c.Sets[set]
	if m == nil {
		m = map[string]struct{}{}
		c.Sets[set] = m
	}
	if len(m) < 5000 {
		m[member] = struct{}{}
	}
}

// Violate records a violation with a signature that names *what* failed.
func (c *Ctx) Violate(sig, format string, args ...any) {
	c.perSig[sig]++
	c.Counters["violations_observed"]++
	if c.perSig[sig] > 3 {
		return
	}
	d := fmt.Sprintf(format, args...)
	if len(d) > 4000 {
		d = d[:4000] + "…"
	}
	c.Violations = append(c.Violations, Violation{Sig: sig, Detail: d, Batch: c.Batch, Index: c.Index, Name: c.Name})
	if c.Verbose {
		fmt.Printf("  violation %s: %s\n", sig, d)
	}
}

// Nontrivial records the canonical description of a non-trivial case.
func (c *Ctx) Nontrivial(canon string) {
	h := sha256.Sum256([]byte(canon))
	c.hashes[binary.LittleEndian.Uint64(h[:8])] = struct{}{}
}

// Sample keeps a few actual cases for the evidence file.
func (c *Ctx) Sample(v any) {
	if len(c.Samples) < 4 {
		c.Samples = append(c.Samples, v)
	}
}

// PanicInfo describes a recovered panic.
type PanicInfo struct {
	Val     string
	Frame   string // innermost frame inside the library
	Runtime bool   // the panic value is a runtime.Error (a crash, not a deliberate panic("..."))
}

func (p *PanicInfo) String() string { return fmt.Sprintf("panic %q at %s", p.Val, p.Frame) }

const libPrefix = "github.com/mfcochauxlaberge/jsonapi."

// Guard runs fn and reports a panic instead of propagating it.
func Guard(fn func()) (pi *PanicInfo) {
	defer func() {
		if v := recover(); v != nil {
			pi = &PanicInfo{Val: clip(fmt.Sprint(v), 200)}
			_, pi.Runtime = v.(runtime.Error)
			pcs := make([]uintptr, 64)
			n := runtime.Callers(2, pcs)
			fr := runtime.CallersFrames(pcs[:n])
			for {
				f, more := fr.Next()
				if strings.HasPrefix(f.Function, libPrefix) {
					pi.Frame = strings.TrimPrefix(f.Function, libPrefix)
					pi.Frame = strings.NewReplacer("(*", "", ")", "").Replace(pi.Frame)
					break
				}
				if !more {
					break
				}
			}
			if pi.Frame == "" {
				pi.Frame = "outside-library"
			}
		}
	}()
	fn()
	return nil
}

// panicClass turns a panic message into a short stable class for signatures.
func panicClass(msg string) string {
	switch {
	case strings.Contains(msg, "index out of range"):
		return "index-out-of-range"
	case strings.Contains(msg, "slice bounds out of range"):
		return "slice-bounds"
	case strings.Contains(msg, "nil pointer"):
		return "nil-pointer"
	case strings.Contains(msg, "interface conversion"):
		return "interface-conversion"
	case strings.Contains(msg, "makeslice"):
		return "makeslice"
	case strings.Contains(msg, "nil map"):
		return "nil-map"
	case strings.Contains(msg, "reflect"):
		return "reflect"
	case strings.Contains(msg, "does not exist"):
		return "field-does-not-exist"
	case strings.Contains(msg, "got value of type"):
		return "wrong-field-type"
	case strings.Contains(msg, "base64") || strings.Contains(msg, "cannot unmarshal") || strings.Contains(msg, "invalid character") || strings.Contains(msg, "unexpected end of JSON"):
		return "json-decode"
	case strings.Contains(msg, "key is empty"):
		return "key-is-empty"
	case strings.Contains(msg, "invalid struct"):
		return "invalid-struct"
	}
	return "other"
}

func clip(s string, n int) string {
	if len(s) > n {
		return s[:n] + "…"
	}
	return s
}

func hashHex(s string) string {
	h := sha256.Sum256([]byte(s))
	return hex.EncodeToString(h[:6])
}

func jsonStr(v any) string {
	b, err := json.Marshal(v)
	if err != nil {
		return fmt.Sprintf("%#v", v)
	}
	return string(b)
}

// workerResult is what a child writes for its parent.
type workerResult struct {
	Batch      int                 `json:"batch"`
	Evals      int64               `json:"evals"`
	Counters   map[string]int64    `json:"counters"`
	Violations []Violation         `json:"violations"`
	Samples    []any               `json:"samples"`
	Extra      map[string]any      `json:"extra"`
	Sets       map[string][]string `json:"sets"`
	Done       bool                `json:"done"`
}

var registry = map[string]Monitor{}

func register(m Monitor) { registry[m.ID()] = m }

func sortedKeys[V any](m map[string]V) []string {
	ks := make([]string, 0, len(m))
	for k := range m {
		ks = append(ks, k)
	}
	sort.Strings(ks)
	return ks
}

func envSeed() uint64 {
	s := os.Getenv("VERIF_SEED")
	if s == "" {
		return 0
	}
	var v int64
	if _, err := fmt.Sscan(s, &v); err != nil {
		return strSeed(s)
	}
	return uint64(v)
}

// keptPayload: the byte slice an earlier marshaling call returned belongs to its caller. The slice itself (not a
// copy) is kept per site and must still read the same after the next call of that site.
var keptPayloads = map[string][]byte{}
var keptDigests = map[string]string{}

func keptPayloadCheck(c *Ctx, site string, out []byte) bool {
	ok := true
	if prev, has := keptPayloads[site]; has && prev != nil && digest(prev) != keptDigests[site] {
		c.Violate("earlier-payload-changed/"+site, "the bytes returned by an earlier %s call changed when the next one ran; they now read %s", site, clip(string(prev), 300))
		ok = false
	}
	keptPayloads[site], keptDigests[site] = out, digest(out)
	c.Count("payloads_kept_across_the_next_call")
	return ok
}
