package main

import (
	"fmt"
	"net/http"
	"net/url"
	"strings"

	"github.com/mfcochauxlaberge/jsonapi"
)

// C07 — URL parsing never panics and its result is consistent with the schema.
type c07 struct{}

func init() { register(c07{}) }

func (c07) ID() string { return "C07" }
func (c07) Size(tier string) Size {
	if tier == "thorough" {
		return Size{Batches: 32, Cases: 15000}
	}
	return Size{Batches: 16, Cases: 4000}
}
func (c07) Rule() string {
	return "case = schema (soft/struct-backed types, relationship names that are string prefixes of one another, occasionally a dangling relationship or a field-less type) + a raw URL built from a schema-aware grammar: 0-6 fragments incl. relationships/meta forms, unknown types and relationships; any combination, repetition and order of fields[], sort, include, page[], filter and unknown parameters; empty values (filter=, sort=-, fields[t]=), repeated sort rules (more than 3x the attribute count), unknown and duplicate names, include paths to depth 6, percent-escapes and malformed ones. Entry points NewURLFromRaw, NewSimpleURL+NewURL, NewSimpleURL+NewParams and NewRequest. Oracle: no panic; URL xor error; on success the resource type is in the schema, the field selection / inclusion paths / sorting rules satisfy the statement's clauses, judged against my own reading of the schema and of the generated parameter list. Non-trivial = URL parsed with >= 2 query parameters, or rejected with a jsonapi error; distinct = raw URL + schema hash."
}
func (c07) Assumptions() []string {
	return []string{"'keep the caller's valid rules in order' is judged through D(x) = cut after the first id rule, drop later repeats of a name: D(caller's valid rules) must be a prefix of D(returned rules) (accepts implementations that keep repeats as well as ones that drop them)",
		"a requested inclusion path may be dropped only if a longer requested path extends it (segment-wise); keeping it is accepted too",
		"when the same fields[t] parameter is repeated, only the generic constraints on that entry are judged (net/url semantics of repeated names are not part of the statement)",
		"caller-relative clauses are judged only for URLs without spliced-in malformed text"}
}
func (c07) Floors(tier string, c map[string]int64) []string {
	var out []string
	for _, k := range []string{"accepted", "rejected/jsonapi", "accepted_collection", "with_include", "with_sort", "with_fields", "filter_empty", "sort_many_repeats", "include_prefix_pair", "include_two_unknown", "entry/NewRequest", "entry/NewParams", "corrupt"} {
		if c[k] == 0 {
			out = append(out, "never observed: "+k)
		}
	}
	return out
}

func dRules(rules []string) []string {
	var out []string
	seen := map[string]bool{}
	for _, ru := range rules {
		n := strings.TrimPrefix(ru, "-")
		if seen[n] {
			continue
		}
		seen[n] = true
		out = append(out, ru)
		if n == "id" {
			break
		}
	}
	return out
}

// checkURL judges a successfully parsed URL. spec may be nil (caller-relative clauses skipped).
func checkParsedURL(s *SchemaSpec, spec *URLSpec, u *jsonapi.URL) (string, string) {
	if u.Params == nil {
		return "nil-params", "URL.Params is nil"
	}
	rt := s.Type(u.ResType)
	if rt == nil {
		return "restype-not-in-schema", fmt.Sprintf("ResType %q is not a type of the schema", u.ResType)
	}
	callerRelative := spec != nil && spec.Corrupt == ""
	if callerRelative {
		// a list item with surrounding white space (" id", "name "): whether a parser reads it as the name or as an
		// unknown name is not settled by the statement, so what the caller "validly asked for" is not judged then
		for _, qp := range spec.Params {
			if qp.Name == "sort" || qp.Name == "include" || strings.HasPrefix(qp.Name, "fields[") {
				for _, it := range strings.Split(qp.Value, ",") {
					if strings.TrimSpace(it) != it {
						callerRelative = false
					}
				}
			}
		}
	}
	// field selection
	if _, ok := u.Params.Fields[u.ResType]; !ok {
		return "fields/no-entry-for-restype", fmt.Sprintf("no field selection entry for the resource type %q", u.ResType)
	}
	for tn, list := range u.Params.Fields {
		t := s.Type(tn)
		if t == nil {
			return "fields/unknown-type", fmt.Sprintf("field selection names type %q which the schema lacks", tn)
		}
		all := t.FieldNames()
		seen := map[string]bool{}
		for _, n := range list {
			if seen[n] {
				return "fields/duplicate", fmt.Sprintf("fields[%s] lists %q twice: %v", tn, n, list)
			}
			seen[n] = true
			if n != "id" && !contains(all, n) {
				return "fields/foreign-name", fmt.Sprintf("fields[%s] lists %q which is no field of the type", tn, n)
			}
		}
		if !callerRelative {
			continue
		}
		cv := spec.values("fields[" + tn + "]")
		switch {
		case len(cv) > 1:
			// repeated parameter: not judged
		case len(cv) == 1:
			var valid []string
			for _, n := range splitList(cv[0]) {
				if n == "id" || contains(all, n) {
					valid = append(valid, n)
				}
			}
			if len(valid) > 0 {
				if !sameSet(list, dedup(valid)) {
					return "fields/not-callers-selection", fmt.Sprintf("fields[%s]=%v, the caller's valid names are %v", tn, list, valid)
				}
			} else if !sameSet(list, all) {
				return "fields/default-not-all", fmt.Sprintf("fields[%s]=%v, caller gave no valid name, all fields are %v", tn, list, all)
			}
		default:
			if !sameSet(list, all) {
				return "fields/default-not-all", fmt.Sprintf("fields[%s]=%v without a caller selection, all fields are %v", tn, list, all)
			}
		}
	}
	// inclusion paths
	var requested []string
	if spec != nil {
		for _, v := range spec.values("include") {
			requested = append(requested, splitList(v)...)
		}
	}
	var returned [][]string
	for _, path := range u.Params.Include {
		cur := rt
		var names []string
		if len(path) == 0 {
			return "include/empty-path", "an inclusion path is empty"
		}
		for i, rel := range path {
			if cur == nil {
				return "include/broken-chain", fmt.Sprintf("inclusion path %v continues after a relationship whose target type is not in the schema", names)
			}
			rs := cur.Rel(rel.FromName)
			if rs == nil || rel.FromName == "" {
				return "include/not-a-relationship", fmt.Sprintf("inclusion path segment %d is %s, which is no relationship of type %q (path so far %v)", i, relStr(rel), cur.Name, names)
			}
			if rel.ToType != rs.ToType || rel.ToOne != rs.ToOne {
				return "include/wrong-relationship", fmt.Sprintf("inclusion path segment %s differs from the schema's %q.%q", relStr(rel), cur.Name, rs.Name)
			}
			names = append(names, rel.FromName)
			cur = s.Type(rs.ToType)
		}
		returned = append(returned, names)
		if callerRelative && !contains(requested, strings.Join(names, ".")) {
			return "include/not-requested", fmt.Sprintf("inclusion path %q was not requested (%v)", strings.Join(names, "."), requested)
		}
	}
	if callerRelative {
		for _, rq := range requested {
			if !validIncludePath(s, u.ResType, rq) {
				continue
			}
			ws := strings.Split(rq, ".")
			kept := false
			for _, rp := range returned {
				if len(rp) >= len(ws) && sameSeq(rp[:len(ws)], ws) {
					kept = true
					break
				}
			}
			if !kept {
				// the statement allows dropping a valid path when a longer requested path extends it
				extended := false
				for _, other := range requested {
					ows := strings.Split(other, ".")
					if len(ows) > len(ws) && sameSeq(ows[:len(ws)], ws) {
						extended = true
					}
				}
				if extended {
					continue
				}
				cls := "plain"
				for _, other := range requested {
					if other != rq && strings.HasPrefix(other, rq) && !strings.HasPrefix(other, rq+".") {
						cls = "string-prefix-of-another"
					}
				}
				return "include/valid-path-dropped/" + cls, fmt.Sprintf("valid requested path %q is not kept (returned %v, requested %v)", rq, returned, requested)
			}
		}
	}
	// sorting rules of collection URLs
	if spec != nil {
		_, isCol, ok := resTypeOf(s, spec.Frags)
		if ok && isCol {
			rules := u.Params.SortingRules
			hasID := false
			for _, ru := range rules {
				n := strings.TrimPrefix(ru, "-")
				if n == "id" {
					hasID = true
					continue
				}
				if rt.Attr(n) == nil {
					return "sort/foreign-rule", fmt.Sprintf("sorting rule %q names neither id nor an attribute of %q", ru, rt.Name)
				}
			}
			if !hasID {
				return "sort/no-id", fmt.Sprintf("sorting rules %v do not contain id", rules)
			}
			if callerRelative {
				var callerValid []string
				for _, v := range spec.values("sort") {
					for _, ru := range splitList(v) {
						n := strings.TrimPrefix(ru, "-")
						if n == "id" || rt.Attr(n) != nil {
							callerValid = append(callerValid, ru)
						}
					}
				}
				dc, dr := dRules(callerValid), dRules(rules)
				if len(dc) > len(dr) || !sameSeq(dc, dr[:len(dc)]) {
					return "sort/callers-rules-not-kept", fmt.Sprintf("caller's valid rules %v (D=%v) are not a prefix of the returned rules %v (D=%v)", callerValid, dc, rules, dr)
				}
			}
		}
	}
	return "", ""
}

func (m c07) run(c *Ctx, s *SchemaSpec, schema *jsonapi.Schema, spec *URLSpec) {
	raw := spec.Raw()
	desc := func() string {
		return fmt.Sprintf("raw %q (spec %s) schema %s", raw, clip(jsonStr(spec), 1200), clip(jsonStr(s), 1500))
	}
	if spec.Corrupt != "" {
		c.Count("corrupt")
	}
	for _, p := range spec.Params {
		switch {
		case p.Name == "filter" && p.Value == "":
			c.Count("filter_empty")
		case p.Name == "sort" && len(splitList(p.Value)) > 8:
			c.Count("sort_many_repeats")
		case p.Name == "include":
			items := splitList(p.Value)
			nUnknown := 0
			for _, a := range items {
				if strings.HasPrefix(a, "nope") {
					nUnknown++
				}
				for _, b := range items {
					if a != b && strings.HasPrefix(b, a) {
						c.Count("include_prefix_pair")
					}
				}
			}
			if nUnknown >= 2 {
				c.Count("include_two_unknown")
			}
			c.Count("with_include")
		case p.Name == "sort":
			c.Count("with_sort")
		case strings.HasPrefix(p.Name, "fields["):
			c.Count("with_fields")
		}
	}
	// A. NewURLFromRaw
	c.Count("evaluations")
	var u *jsonapi.URL
	var err error
	if pi := Guard(func() { u, err = jsonapi.NewURLFromRaw(schema, raw) }); pi != nil {
		c.Violate("panic@"+pi.Frame+"/"+panicClass(pi.Val)+"/NewURLFromRaw", "%s; %s", pi, desc())
		return
	}
	if (u == nil) == (err == nil) {
		c.Violate("url-xor-error/NewURLFromRaw", "url nil=%v err=%v; %s", u == nil, err, desc())
		return
	}
	if err != nil {
		if _, ok := err.(jsonapi.Error); ok {
			c.Count("rejected/jsonapi")
			c.Nontrivial(raw + jsonStr(s))
		} else {
			c.Count("rejected/other")
		}
	} else {
		c.Count("accepted")
		if u.IsCol {
			c.Count("accepted_collection")
		}
		if cl, msg := checkParsedURL(s, spec, u); cl != "" {
			c.Violate(cl, "%s; %s", msg, desc())
			return
		}
		if len(spec.Params) >= 2 {
			c.Nontrivial(raw + jsonStr(s))
		}
	}
	// C. NewSimpleURL + NewParams with an arbitrary resource type
	if pu, perr := url.Parse(raw); perr == nil {
		c.Count("evaluations")
		c.Count("entry/NewParams")
		resType := ""
		switch len(raw) % 3 {
		case 0:
			resType = s.Types[len(raw)%len(s.Types)].Name
		case 1:
			resType = "nope"
		}
		if pi := Guard(func() {
			su, serr := jsonapi.NewSimpleURL(pu)
			if serr != nil {
				return
			}
			u2, uerr := jsonapi.NewURL(schema, su)
			if (u2 == nil) == (uerr == nil) {
				c.Violate("url-xor-error/NewURL", "%s", desc())
			}
			p, perr := jsonapi.NewParams(schema, su, resType)
			if (p == nil) == (perr == nil) {
				c.Violate("params-xor-error/NewParams", "%s", desc())
			}
			if perr == nil && s.Type(resType) != nil {
				// the same clauses on the Params built directly for a given resource type
				fake := &jsonapi.URL{ResType: resType, Params: p}
				fspec := *spec
				fspec.Frags = []string{resType, "some-id"} // not a collection: sorting rules are not judged here
				if cl, msg := checkParsedURL(s, &fspec, fake); cl != "" {
					c.Violate(cl+"/NewParams", "NewParams(resType=%q): %s; %s", resType, msg, desc())
				}
			}
		}); pi != nil {
			c.Violate("panic@"+pi.Frame+"/"+panicClass(pi.Val)+"/NewSimpleURL+NewParams", "%s; resType %q; %s", pi, resType, desc())
			return
		}
	}
	// D. NewRequest
	if hr, herr := http.NewRequest([]string{"GET", "DELETE", "POST"}[len(raw)%3], raw, strings.NewReader(`{"data":null}`)); herr == nil {
		c.Count("evaluations")
		c.Count("entry/NewRequest")
		var req *jsonapi.Request
		var rerr error
		if pi := Guard(func() { req, rerr = jsonapi.NewRequest(hr, schema) }); pi != nil {
			c.Violate("panic@"+pi.Frame+"/"+panicClass(pi.Val)+"/NewRequest", "%s; %s", pi, desc())
			return
		}
		if (req == nil) == (rerr == nil) {
			c.Violate("request-xor-error/NewRequest", "%s", desc())
			return
		}
		if rerr == nil {
			if cl, msg := checkParsedURL(s, spec, req.URL); cl != "" {
				c.Violate(cl+"/NewRequest", "%s; %s", msg, desc())
			}
		}
	}
}

func (m c07) Case(c *Ctx, r *RNG) {
	s := genURLSchema(r)
	var schema *jsonapi.Schema
	if pi := Guard(func() { schema = buildSchema(s) }); pi != nil {
		c.Violate("panic@"+pi.Frame+"/build-schema", "%s", pi)
		return
	}
	for i := 0; i < 4; i++ {
		spec := genURL(r, s)
		if c.Index < 2 && i == 0 {
			c.Sample(map[string]any{"raw": spec.Raw(), "schema": s})
		}
		m.run(c, s, schema, spec)
	}
}

func (m c07) Directed(c *Ctx) {
	t1 := TypeSpec{Name: "t1", Attrs: []AttrSpec{{Name: "a", Kind: KString}, {Name: "b", Kind: KInt}},
		Rels: []RelSpec{{Name: "author", ToOne: true, ToType: "t2"}, {Name: "authors", ToType: "t2"}, {Name: "ghost", ToOne: true, ToType: "missing"}}}
	t2 := TypeSpec{Name: "t2", Attrs: []AttrSpec{{Name: "x", Kind: KBool}}, Rels: []RelSpec{{Name: "back", ToType: "t1"}}}
	s := &SchemaSpec{Types: []TypeSpec{t1, t2}}
	schema := buildSchema(s)
	run := func(name string, frags []string, params ...QP) {
		c.Name = name
		m.run(c, s, schema, &URLSpec{Frags: frags, Params: params})
	}
	run("witness-empty-filter", []string{"t1"}, QP{"filter", ""})
	run("witness-repeated-sort", []string{"t1"}, QP{"sort", "a,a,a,a,a,a,a,a"})
	run("witness-include-string-prefix", []string{"t1"}, QP{"include", "author,authors"})
	run("witness-two-unknown-includes", []string{"t1"}, QP{"include", "nope1,nope2"})
	run("witness-dangling-relationship-path", []string{"t1", "1", "ghost"})
	run("sort-dash", []string{"t1"}, QP{"sort", "-"})
	run("empty-path", nil)
	run("include-depth", []string{"t1"}, QP{"include", "authors.back.author.back.authors.back"}, QP{"include", "authors.back"})
}
