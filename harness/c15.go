package main

import (
	"fmt"
	"strings"

	"github.com/mfcochauxlaberge/jsonapi"
)

// C15 — Schema.Check finds every dangling or unreciprocated relationship.
type c15 struct{}

func init() { register(c15{}) }

func (c15) ID() string { return "C15" }
func (c15) Size(tier string) Size {
	if tier == "thorough" {
		return Size{Batches: 16, Cases: 60000}
	}
	return Size{Batches: 16, Cases: 8000}
}
func (c15) Rule() string {
	return "case = schema of 0-5 soft types x 0-4 relationships built coherent and then perturbed with 0..n planted faults (missing target - also a near miss of an existing name: suffix, prefix, case, surrounding white space -, missing / misnamed / mis-typed inverse, wrong (also empty) FromType on one-way and two-way relationships, self-referential relationships, nil maps, attributes named like relationships); oracle = my own predicate offending(rel): len(Check())==0 iff no offending relationship, len(Check()) >= number of offending relationships, no panic, deep schema fingerprint unchanged. Names include '_' (a_b / b_c style collisions); in 2 of 5 types the Rels map keys are not the relationships' FromName (prefixed, or rotated among siblings): a relationship is what it says, not the key it is stored under. Non-trivial = >= 2 relationships with at least one naming an inverse."
}
func (c15) Assumptions() []string {
	return []string{"reading: 'reciprocated by a relationship of the target type that names it back' includes the back-reference's target type (the quantifier lists mis-typed inverses separately from misnamed ones)",
		"errors are not attributed to relationships by message text; completeness is judged by count (>= offending) and by the iff on emptiness, which with a single planted fault attributes the report"}
}
func (c15) Floors(tier string, c map[string]int64) []string {
	var out []string
	if c["coherent_schemas"] < 50 || c["incoherent_schemas"] < 50 {
		out = append(out, fmt.Sprintf("coherent=%d incoherent=%d schemas (need 50 each)", c["coherent_schemas"], c["incoherent_schemas"]))
	}
	for _, f := range []string{"missing-target", "missing-inverse", "misnamed-inverse", "mistyped-inverse", "wrong-fromtype-twoway"} {
		if c["single_fault/"+f] == 0 {
			out = append(out, "no schema with the single planted fault "+f)
		}
	}
	return out
}

type c15rel struct {
	Owner string
	R     jsonapi.Rel
}

func c15offending(types map[string][]jsonapi.Rel, order []string) int {
	n := 0
	for _, tn := range order {
		for _, rel := range types[tn] {
			target, exists := types[rel.ToType]
			off := !exists
			if rel.ToName != "" {
				if rel.FromType != tn {
					off = true
				} else {
					found := false
					for _, inv := range target {
						if inv.FromName == rel.ToName && inv.ToName == rel.FromName && inv.ToType == tn {
							found = true
						}
					}
					if !found {
						off = true
					}
				}
			}
			if off {
				n++
			}
		}
	}
	return n
}

func (m c15) run(c *Ctx, order []string, types map[string][]jsonapi.Rel, nilMaps map[string]bool, tag string) {
	c.Count("evaluations")
	nrels, twoWay := 0, 0
	var built []jsonapi.Type
	for _, tn := range order {
		typ := jsonapi.Type{Name: tn}
		if !nilMaps[tn] || len(types[tn]) > 0 {
			typ.Rels = map[string]jsonapi.Rel{}
		}
		if !nilMaps[tn] {
			typ.Attrs = map[string]jsonapi.Attr{}
		}
		for i, r := range types[tn] {
			key := r.FromName
			// a relationship is identified by what it says (FromName), not by the map key it is stored under:
			// in some schemas the keys are something else (a prefixed name, the name of a sibling)
			switch rekey := strSeed(tn+fmt.Sprint(len(order), len(types[tn]))) % 5; {
			case rekey == 1:
				key = "k:" + r.FromName
				c.Count("rels_stored_under_another_key")
			case rekey == 2 && len(types[tn]) >= 2:
				key = types[tn][(i+1)%len(types[tn])].FromName // rotated among the siblings
				c.Count("rels_stored_under_another_key")
			}
			typ.Rels[key] = r
			// attributes named like relationships (of this type, or like the inverse a relationship of another
			// type names): Check is about relationships, whatever the attributes are called
			if typ.Attrs != nil && strSeed(tn+r.FromName+r.ToName)%4 == 0 {
				for _, an := range []string{r.FromName, r.ToName} {
					if an != "" {
						typ.Attrs[an] = jsonapi.Attr{Name: an, Type: jsonapi.AttrTypeString}
						c.Count("attributes_named_like_relationships")
					}
				}
			}
			nrels++
			if r.ToName != "" {
				twoWay++
			}
		}
		built = append(built, typ)
	}
	// three ways to the same schema: a literal list of types; AddType for each; AddType with a decoy type in a
	// non-last slot that is looked up and removed again (so that anything the schema keeps about positions is stale)
	sc := &jsonapi.Schema{}
	how := strSeed(fmt.Sprint(order, nrels)) % 3
	if how > 0 {
		ok := true
		if pi := Guard(func() {
			for i, typ := range built {
				if how == 2 && i == len(built)/2 {
					if err := sc.AddType(jsonapi.Type{Name: "zz-decoy"}); err != nil {
						ok = false
					}
				}
				if err := sc.AddType(typ); err != nil {
					ok = false
				}
			}
			if how == 2 {
				_ = sc.HasType("zz-decoy")
				sc.RemoveType("zz-decoy")
			}
		}); pi != nil || !ok || len(sc.Types) != len(built) {
			how = 0 // AddType may refuse what a literal can hold (it is free to): fall back to the literal
		} else {
			c.Count(fmt.Sprintf("schemas_built_with_addtype/%d", how))
		}
	}
	if how == 0 {
		sc = &jsonapi.Schema{Types: built}
	}
	want := c15offending(types, order)
	before := schemaFingerprint(sc)
	var errs []error
	if pi := Guard(func() { errs = sc.Check() }); pi != nil {
		c.Violate("panic@"+pi.Frame+"/"+panicClass(pi.Val), "Check on %s: %s", before, pi)
		return
	}
	if after := schemaFingerprint(sc); after != before {
		c.Violate("check-modifies-schema", "before %s\nafter  %s", before, after)
	}
	// a second call on the same schema answers the same (nothing is remembered between calls)
	var errs2 []error
	if pi := Guard(func() { errs2 = sc.Check() }); pi != nil {
		c.Violate("panic@"+pi.Frame+"/"+panicClass(pi.Val)+"/second-call", "second Check on %s: %s", before, pi)
		return
	}
	if len(errs2) != len(errs) {
		c.Violate("second-call-differs", "Check returned %d errors, then %d on the same schema %s", len(errs), len(errs2), before)
	}
	if want == 0 {
		c.Count("coherent_schemas")
	} else {
		c.Count("incoherent_schemas")
	}
	if tag != "" && want > 0 {
		c.Count("single_fault/" + tag)
	}
	cls := tag
	if cls == "" {
		cls = "mixed"
	}
	switch {
	case want == 0 && len(errs) != 0:
		c.Violate("false-report", "no offending relationship but Check returned %v for %s", errs, before)
	case want > 0 && len(errs) == 0:
		c.Violate("missed/"+cls, "%d offending relationship(s) but Check returned nothing for %s", want, before)
	case len(errs) < want:
		c.Violate("too-few-errors/"+cls, "%d offending relationships but only %d errors %v for %s", want, len(errs), errs, before)
	}
	if nrels >= 2 && twoWay >= 1 {
		c.Nontrivial(before)
	}
}

var c15Types = []string{"a", "b", "ab", "t1", "users", "c", "a_b", "b_c"}
var c15Names = []string{"a", "b", "ab", "r1", "r2", "author", "authors", "c", "a_b", "b_c", "_"}

func (m c15) Case(c *Ctx, r *RNG) {
	nt := r.Range(0, 5)
	order := genDistinctNames(r, c15Types, nt)
	types := map[string][]jsonapi.Rel{}
	nilMaps := map[string]bool{}
	used := map[string]bool{}
	for _, tn := range order {
		types[tn] = nil
		nilMaps[tn] = r.Chance(1, 4)
	}
	if nt > 0 {
		nrel := r.Range(0, 4*nt)
		for i := 0; i < nrel; i++ {
			a, b := order[r.Intn(nt)], order[r.Intn(nt)]
			n1 := r.Pick(c15Names)
			if used[a+"\x00"+n1] || len(types[a]) >= 4 {
				continue
			}
			if r.Bool() {
				used[a+"\x00"+n1] = true
				types[a] = append(types[a], jsonapi.Rel{FromType: a, FromName: n1, ToOne: r.Bool(), ToType: b})
				continue
			}
			n2 := r.Pick(c15Names)
			if used[b+"\x00"+n2] || (a == b && n1 == n2) || len(types[b]) >= 4 {
				continue
			}
			used[a+"\x00"+n1], used[b+"\x00"+n2] = true, true
			o1, o2 := r.Bool(), r.Bool()
			types[a] = append(types[a], jsonapi.Rel{FromType: a, FromName: n1, ToOne: o1, ToType: b, ToName: n2, FromOne: o2})
			types[b] = append(types[b], jsonapi.Rel{FromType: b, FromName: n2, ToOne: o2, ToType: a, ToName: n1, FromOne: o1})
		}
	}
	// plant faults
	var all []*jsonapi.Rel
	var owners []string
	for _, tn := range order {
		for i := range types[tn] {
			all = append(all, &types[tn][i])
			owners = append(owners, tn)
		}
	}
	nf := 0
	switch r.Intn(4) {
	case 0:
		nf = 0
	case 1, 2:
		nf = 1
	default:
		nf = r.Range(2, 4)
	}
	tag := ""
	for f := 0; f < nf && len(all) > 0; f++ {
		i := r.Intn(len(all))
		rel, owner := all[i], owners[i]
		kind := r.Intn(9)
		switch kind {
		case 0:
			// a missing target: unrelated name, or a near miss of an existing one (extension, prefix, case variant)
			cands := []string{"missing", owner + "s", rel.ToType + "x", rel.ToType + rel.ToType, strings.ToUpper(rel.ToType), rel.ToType + " ", " " + rel.ToType, "\t" + rel.ToType, rel.ToType + "\n", strings.TrimSuffix(rel.ToType, rel.ToType[max(len(rel.ToType)-1, 0):]), ""}
			rel.ToType = "missing"
			for _, cnd := range cands[r.Intn(len(cands)):] {
				if _, exists := types[cnd]; !exists {
					rel.ToType = cnd
					break
				}
			}
			tag = "missing-target"
		case 1: // remove the inverse of a two-way relationship
			if rel.ToName == "" {
				continue
			}
			tgt := types[rel.ToType]
			for j := range tgt {
				if tgt[j].FromName == rel.ToName {
					types[rel.ToType] = append(append([]jsonapi.Rel{}, tgt[:j]...), tgt[j+1:]...)
					break
				}
			}
			tag = "missing-inverse"
			// pointers into the modified slice are stale; stop planting
			f = nf
		case 2:
			if rel.ToName == "" {
				continue
			}
			rel.ToName = rel.ToName + "x"
			tag = "misnamed-inverse"
		case 3: // mis-typed inverse: the partner points to another type
			if rel.ToName == "" {
				continue
			}
			tgt := types[rel.ToType]
			for j := range tgt {
				if tgt[j].FromName == rel.ToName && tgt[j].ToName == rel.FromName {
					other := order[r.Intn(len(order))]
					tgt[j].ToType = other
				}
			}
			tag = "mistyped-inverse"
		case 4:
			if rel.ToName == "" {
				continue
			}
			rel.FromType = r.Pick([]string{rel.FromType + "x", "", "", strings.ToUpper(rel.FromType) + "_", " " + rel.FromType}) // also left empty
			tag = "wrong-fromtype-twoway"
		case 5:
			if rel.ToName != "" {
				continue
			}
			rel.FromType = "other" // not offending for a one-way relationship
			tag = "wrong-fromtype-oneway"
		case 7: // one-way relationship declared from another type than its owner, pointing to a missing type
			if rel.ToName != "" {
				continue
			}
			rel.ToType = "missing"
			rel.FromType = []string{"missing", owner, "other", order[r.Intn(len(order))]}[r.Intn(4)]
			tag = "missing-target"
		case 8: // FromType equal to the target type (existing)
			rel.FromType = rel.ToType
			if rel.ToName != "" {
				tag = "wrong-fromtype-twoway"
				if rel.FromType == owner {
					tag = ""
				}
			} else {
				tag = "wrong-fromtype-oneway"
			}
		case 6: // one-way relationship that names a non-existing inverse
			if rel.ToName != "" {
				continue
			}
			rel.ToName = r.Pick(c15Names)
			tag = "dangling-inverse-name"
		}
		_ = owner
	}
	if nf != 1 {
		tag = ""
	}
	if tag != "" && c15offending(types, order) == 0 {
		tag = "" // the planted change happens not to be a fault
	}
	m.run(c, order, types, nilMaps, tag)
	if c.Index < 3 {
		c.Sample(map[string]any{"types_in_order": order, "rels": types, "planted": tag})
	}
}

func (m c15) Directed(c *Ctx) {
	c.Name = "witness-mistyped-inverse"
	m.run(c, []string{"a", "b", "c"}, map[string][]jsonapi.Rel{
		"a": {{FromType: "a", FromName: "r1", ToType: "b", ToName: "r2"}},
		"b": {{FromType: "b", FromName: "r2", ToType: "c", ToName: "r1"}},
		"c": {{FromType: "c", FromName: "r1", ToType: "b", ToName: "r2"}},
	}, nil, "mistyped-inverse")
	c.Name = "coherent-self-referential"
	m.run(c, []string{"a"}, map[string][]jsonapi.Rel{
		"a": {{FromType: "a", FromName: "parent", ToOne: true, ToType: "a", ToName: "children"}, {FromType: "a", FromName: "children", ToType: "a", ToName: "parent", FromOne: true}},
	}, nil, "")
	// many offending relationships at once: every one of them gets an error (no cap on the number reported)
	c.Name = "many-offending-relationships"
	{
		var order []string
		types := map[string][]jsonapi.Rel{}
		for i := 0; i < 40; i++ {
			tn := fmt.Sprintf("t%02d", i)
			order = append(order, tn)
			for j := 0; j < 6; j++ {
				types[tn] = append(types[tn], jsonapi.Rel{FromType: tn, FromName: fmt.Sprintf("r%d", j), ToType: fmt.Sprintf("ghost%d", (i+j)%7), ToOne: j%2 == 0})
			}
		}
		m.run(c, order, types, nil, "")
		c.Count("schemas_with_more_than_200_offending_relationships")
	}
	c.Name = "empty-schema"
	m.run(c, nil, map[string][]jsonapi.Rel{}, nil, "")
	// exhaustive over a tiny universe whose names collide under any separator-joined key: types {a, a_b},
	// relationship names {b, c, b_c, a_b}, inverse name empty or one of those, target either type; every schema with
	// at most one relationship per type (quick) / at most two (thorough)
	c.Name = "exhaustive-underscore-universe"
	tnames := []string{"a", "a_b"}
	rnames := []string{"b", "c", "b_c", "a_b"}
	options := func(owner string) [][]jsonapi.Rel {
		var single []jsonapi.Rel
		for _, fn := range rnames {
			for _, tt := range tnames {
				for _, tn := range append([]string{""}, rnames...) {
					single = append(single, jsonapi.Rel{FromType: owner, FromName: fn, ToType: tt, ToName: tn})
				}
			}
		}
		out := [][]jsonapi.Rel{nil}
		for _, r := range single {
			out = append(out, []jsonapi.Rel{r})
		}
		if c.Thorough() {
			for i, r1 := range single {
				for _, r2 := range single[i+1:] {
					if r1.FromName != r2.FromName {
						out = append(out, []jsonapi.Rel{r1, r2})
					}
				}
			}
		}
		return out
	}
	oa, ob := options("a"), options("a_b")
	if c.Thorough() {
		ob = ob[:41] // two relationships in one type x at most one in the other, both ways
	}
	n := 0
	for _, ra := range oa {
		for _, rb := range ob {
			m.run(c, tnames, map[string][]jsonapi.Rel{"a": ra, "a_b": rb}, nil, "")
			n++
		}
	}
	if c.Thorough() {
		oa2 := options("a")[:41]
		for _, ra := range oa2 {
			for _, rb := range options("a_b")[41:] {
				m.run(c, tnames, map[string][]jsonapi.Rel{"a": ra, "a_b": rb}, nil, "")
				n++
			}
		}
	}
	c.Extra["exhaustive_subspaces"] = []string{fmt.Sprintf("every schema over types {a, a_b} with relationship names in {b, c, b_c, a_b}, inverse name empty or one of them, any target: %d schemas", n)}
}
