package main

import (
	"bytes"
	"encoding/json"
	"fmt"
	"io"
	"math/big"
	"sort"
	"strings"
)

// JV is a JSON value read by my own token walk: member order and duplicate
// keys are preserved, numbers keep their text.
type JV struct {
	Kind byte // 'n' null, 'b' bool, '0' number, 's' string, 'a' array, 'o' object
	B    bool
	Num  string
	Str  string
	Arr  []*JV
	Keys []string
	Vals []*JV
}

func parseJV(data []byte) (*JV, error) {
	dec := json.NewDecoder(bytes.NewReader(data))
	dec.UseNumber()
	v, err := readJV(dec)
	if err != nil {
		return nil, err
	}
	if _, err := dec.Token(); err != io.EOF {
		return nil, fmt.Errorf("trailing data after the top-level value")
	}
	return v, nil
}

func readJV(dec *json.Decoder) (*JV, error) {
	tok, err := dec.Token()
	if err != nil {
		return nil, err
	}
	switch t := tok.(type) {
	case nil:
		return &JV{Kind: 'n'}, nil
	case bool:
		return &JV{Kind: 'b', B: t}, nil
	case json.Number:
		return &JV{Kind: '0', Num: string(t)}, nil
	case string:
		return &JV{Kind: 's', Str: t}, nil
	case json.Delim:
		switch t {
		case '[':
			v := &JV{Kind: 'a'}
			for dec.More() {
				e, err := readJV(dec)
				if err != nil {
					return nil, err
				}
				v.Arr = append(v.Arr, e)
			}
			if _, err := dec.Token(); err != nil {
				return nil, err
			}
			return v, nil
		case '{':
			v := &JV{Kind: 'o'}
			for dec.More() {
				kt, err := dec.Token()
				if err != nil {
					return nil, err
				}
				k, ok := kt.(string)
				if !ok {
					return nil, fmt.Errorf("object key is not a string")
				}
				e, err := readJV(dec)
				if err != nil {
					return nil, err
				}
				v.Keys = append(v.Keys, k)
				v.Vals = append(v.Vals, e)
			}
			if _, err := dec.Token(); err != nil {
				return nil, err
			}
			return v, nil
		}
	}
	return nil, fmt.Errorf("unexpected token %v", tok)
}

// Get returns the (first) member named k, or nil.
func (v *JV) Get(k string) *JV {
	if v == nil || v.Kind != 'o' {
		return nil
	}
	for i, kk := range v.Keys {
		if kk == k {
			return v.Vals[i]
		}
	}
	return nil
}

func (v *JV) Has(k string) bool { return v.Get(k) != nil }

// dupKey returns a duplicated member name anywhere in the tree ("" if none).
func (v *JV) dupKey() string {
	if v == nil {
		return ""
	}
	switch v.Kind {
	case 'a':
		for _, e := range v.Arr {
			if d := e.dupKey(); d != "" {
				return d
			}
		}
	case 'o':
		seen := map[string]bool{}
		for i, k := range v.Keys {
			if seen[k] {
				return k
			}
			seen[k] = true
			if d := v.Vals[i].dupKey(); d != "" {
				return d
			}
		}
	}
	return ""
}

func (v *JV) IsStr() bool { return v != nil && v.Kind == 's' }

// canon is a canonical text (members sorted, numbers as exact rationals).
func (v *JV) canon() string {
	if v == nil {
		return "<absent>"
	}
	switch v.Kind {
	case 'n':
		return "null"
	case 'b':
		return fmt.Sprint(v.B)
	case '0':
		r, ok := new(big.Rat).SetString(v.Num)
		if !ok {
			return "num:" + v.Num
		}
		return "num:" + r.RatString()
	case 's':
		return fmt.Sprintf("%q", v.Str)
	case 'a':
		parts := []string{}
		for _, e := range v.Arr {
			parts = append(parts, e.canon())
		}
		return "[" + strings.Join(parts, ",") + "]"
	case 'o':
		idx := make([]int, len(v.Keys))
		for i := range idx {
			idx[i] = i
		}
		sort.SliceStable(idx, func(a, b int) bool { return v.Keys[idx[a]] < v.Keys[idx[b]] })
		parts := []string{}
		for _, i := range idx {
			parts = append(parts, fmt.Sprintf("%q:%s", v.Keys[i], v.Vals[i].canon()))
		}
		return "{" + strings.Join(parts, ",") + "}"
	}
	return "?"
}

// canonOfGo gives the canonical text of a Go value as encoding/json would write it.
func canonOfGo(x any) string {
	b, err := json.Marshal(x)
	if err != nil {
		return "unmarshalable:" + err.Error()
	}
	v, err := parseJV(b)
	if err != nil {
		return "unparsable:" + err.Error()
	}
	return v.canon()
}

// emptyish reports whether a JSON value is absent, null or an empty object.
func (v *JV) emptyish() bool {
	return v == nil || v.Kind == 'n' || (v.Kind == 'o' && len(v.Keys) == 0)
}

// bytes serialises the tree again (member order and duplicates kept).
func (v *JV) bytes() []byte {
	var b bytes.Buffer
	v.write(&b)
	return b.Bytes()
}

func (v *JV) write(b *bytes.Buffer) {
	switch v.Kind {
	case 'n':
		b.WriteString("null")
	case 'b':
		fmt.Fprint(b, v.B)
	case '0':
		b.WriteString(v.Num)
	case 's':
		s, _ := json.Marshal(v.Str)
		b.Write(s)
	case 'a':
		b.WriteByte('[')
		for i, e := range v.Arr {
			if i > 0 {
				b.WriteByte(',')
			}
			e.write(b)
		}
		b.WriteByte(']')
	case 'o':
		b.WriteByte('{')
		for i, k := range v.Keys {
			if i > 0 {
				b.WriteByte(',')
			}
			s, _ := json.Marshal(k)
			b.Write(s)
			b.WriteByte(':')
			v.Vals[i].write(b)
		}
		b.WriteByte('}')
	case 'r': // raw text spliced in by a mutation
		b.WriteString(v.Str)
	}
}

// slots lists pointers to every value position of the tree (for mutation).
func (v *JV) slots(out *[]**JV) {
	switch v.Kind {
	case 'a':
		for i := range v.Arr {
			*out = append(*out, &v.Arr[i])
			v.Arr[i].slots(out)
		}
	case 'o':
		for i := range v.Vals {
			*out = append(*out, &v.Vals[i])
			v.Vals[i].slots(out)
		}
	}
}
