package main

import (
	"fmt"

	"github.com/mfcochauxlaberge/jsonapi"
)

// ErrSpec is an error object written as plain data.
type ErrSpec struct {
	ID, Code, Status, Title, Detail string
	Links                           map[string]string
	Source                          map[string]any
	Meta                            map[string]any
}

// DocSpec is a document + URL written as plain data.
type DocSpec struct {
	Schema   *SchemaSpec         `json:"schema"`
	Kind     string              `json:"kind"`   // null | resource | collection | identifier | identifiers
	Holder   string              `json:"holder"` // Resources | SoftCollection | WrapperCollection (collections)
	ColType  string              `json:"col_type,omitempty"`
	Primary  []*ResSpec          `json:"primary,omitempty"`
	Idents   [][2]string         `json:"identifiers,omitempty"` // (type, id)
	Included []*ResSpec          `json:"included,omitempty"`
	Meta     map[string]any      `json:"meta,omitempty"`
	Errors   []ErrSpec           `json:"errors,omitempty"`
	Prefix   string              `json:"prefix"`
	Fields   map[string][]string `json:"fields"`
	RelData  map[string][]string `json:"rel_data"`
	Frags    []string            `json:"fragments"`
	Links    map[string]string   `json:"links,omitempty"`
	// what else the URL carries (none of it selects fields; it shows up in the self link)
	URLFilter *FSpec     `json:"url_filter,omitempty"`
	URLSort   []string   `json:"url_sort,omitempty"`
	URLPage   [][2]any   `json:"url_page,omitempty"`
	URLInc    [][]string `json:"url_include,omitempty"` // inclusion paths as relationship names from the URL's type
	ResMeta   bool       `json:"resource_meta,omitempty"` // every resource carries its own meta object
	NilFields bool       `json:"nil_fields_map,omitempty"` // url.Params.Fields is a nil map (a hand-written &Params{}): no selection entry for any type
	NotCol    bool       `json:"url_not_marked_collection,omitempty"` // a hand-written URL literal whose IsCol was left false
	URLRelData bool      `json:"url_params_rel_data,omitempty"` // url.Params.RelData names every relationship of every type (a field handlers fill in; the document's own request is what counts)
	SpareCap  bool       `json:"spare_capacity,omitempty"` // the selection lists are slices with spare capacity
}

var prefixPool = []string{"", "/", "https://example.org", "https://example.org/", "https://example.org/api/v1", "/api/", "http://h/a b", "https://example.org/\"q\"", "https://example.org/caf%C3%A9/api", "/my%20api/", "http://[fe80::1%25eth0]:8080/v1", "/100%/"}

// genJSONValue draws a JSON-representable value whose numbers survive float64.
func genJSONValue(r *RNG, depth int) any {
	k := r.Intn(8)
	if depth <= 0 && k >= 6 {
		k = r.Intn(6)
	}
	switch k {
	case 0:
		return nil
	case 1:
		return r.Bool()
	case 2:
		return float64(r.Range(-1000, 1000))
	case 3:
		// incl. whole numbers beyond the int64 range (a reader that turns whole floats into ints must not wrap them)
		return []float64{0.5, -2.25, 1e10, 9007199254740992, -9007199254740992, 1e-3, 3.141592653589793, 1e19, -1e19, 9.3e18, 1.8446744073709552e19, 1e300, 4294967296}[r.Intn(13)]
	case 4, 5:
		return genString(r)
	case 6:
		n := r.Intn(4)
		arr := []any{}
		for i := 0; i < n; i++ {
			arr = append(arr, genJSONValue(r, depth-1))
		}
		return arr
	default:
		n := r.Intn(4)
		obj := map[string]any{}
		for i := 0; i < n; i++ {
			obj[r.Pick([]string{"a", "b", "k", "n", "x y", "é", "<k>", ""})] = genJSONValue(r, depth-1)
		}
		return obj
	}
}

func genMeta(r *RNG, maxDepth int) map[string]any {
	if r.Chance(1, 3) {
		return nil
	}
	n := r.Intn(4)
	m := map[string]any{}
	for i := 0; i < n; i++ {
		m[r.Pick([]string{"count", "total", "k", "a", "nested", "x y"})] = genJSONValue(r, maxDepth)
	}
	return m
}

func genErrSpec(r *RNG) ErrSpec {
	e := ErrSpec{}
	pick := func() string {
		if r.Bool() {
			return ""
		}
		return genString(r)
	}
	e.ID, e.Code, e.Status, e.Title, e.Detail = pick(), pick(), pick(), pick(), pick()
	if r.Chance(1, 3) {
		e.Status = r.Pick([]string{"400", "404", "500", "", "abc"})
	}
	if r.Bool() {
		e.Links = map[string]string{}
		for i := r.Intn(3); i > 0; i-- {
			e.Links[r.Pick([]string{"about", "type", "x"})] = genString(r)
		}
	}
	if r.Bool() {
		e.Source = map[string]any{}
		for i := r.Intn(3); i > 0; i-- {
			e.Source[r.Pick([]string{"pointer", "parameter", "header"})] = genJSONValue(r, 1)
		}
	}
	if r.Bool() {
		e.Meta = genMeta(r, 2)
	}
	return e
}

func (e ErrSpec) members() int {
	n := 0
	for _, s := range []string{e.ID, e.Code, e.Status, e.Title, e.Detail} {
		if s != "" {
			n++
		}
	}
	if len(e.Links) > 0 {
		n++
	}
	if len(e.Source) > 0 {
		n++
	}
	if len(e.Meta) > 0 {
		n++
	}
	return n
}

func (e ErrSpec) build() jsonapi.Error {
	out := jsonapi.Error{ID: e.ID, Code: e.Code, Status: e.Status, Title: e.Title, Detail: e.Detail}
	if e.Links != nil {
		out.Links = map[string]string{}
		for k, v := range e.Links {
			out.Links[k] = v
		}
	}
	if e.Source != nil {
		out.Source = map[string]any{}
		for k, v := range e.Source {
			out.Source[k] = v
		}
	}
	if e.Meta != nil {
		out.Meta = jsonapi.Meta{}
		for k, v := range e.Meta {
			out.Meta[k] = v
		}
	}
	return out
}

// genSelection draws a field selection for a type: missing entry (second result false),
// empty, all, subsets, with 'id', unknown names and duplicates.
func genSelection(r *RNG, t *TypeSpec) ([]string, bool) {
	all := t.FieldNames()
	switch r.Intn(8) {
	case 0:
		return nil, false
	case 1:
		return []string{}, true
	case 2, 3:
		return shuffleStrings(r, all), true
	default:
		sel := subsetStrings(r, shuffleStrings(r, all))
		if r.Chance(1, 4) {
			sel = append(sel, "id")
		}
		if r.Chance(1, 4) {
			sel = append(sel, "unknown-field")
		}
		if r.Chance(1, 5) && len(sel) > 0 {
			sel = append(sel, sel[0])
		}
		return sel, true
	}
}

type docOpts struct {
	MaxPrimary, MaxIncluded int
	Errors                  bool // allow error documents
	SafeIDs                 bool
	UniqueIDs               bool // distinct IDs among included (and primary)
}

// genDoc draws a document spec over a fresh schema.
func genDoc(r *RNG, o docOpts) *DocSpec {
	s := genSchema(r, genOpts{MaxTypes: 3, MaxAttrs: 5, MaxRels: 3, AllowWrap: true})
	d := &DocSpec{Schema: s, Fields: map[string][]string{}, RelData: map[string][]string{}}
	d.Prefix = prefixPool[r.Intn(len(prefixPool))]
	usedIDs := map[string]bool{}
	id := func() string {
		for tries := 0; ; tries++ {
			var v string
			if o.SafeIDs {
				v = safeIDPool[r.Intn(len(safeIDPool))]
			} else {
				v = genID(r)
			}
			if !o.UniqueIDs || !usedIDs[v] || tries > 50 {
				if tries > 50 {
					v = fmt.Sprintf("u%d", len(usedIDs))
				}
				usedIDs[v] = true
				return v
			}
		}
	}
	kinds := []string{"null", "resource", "resource", "collection", "collection", "collection", "identifier", "identifiers"}
	d.Kind = kinds[r.Intn(len(kinds))]
	switch d.Kind {
	case "resource":
		t := &s.Types[r.Intn(len(s.Types))]
		d.Primary = []*ResSpec{genResource(r, t, id())}
	case "collection":
		d.Holder = []string{"Resources", "SoftCollection", "WrapperCollection"}[r.Intn(3)]
		n := r.Range(0, o.MaxPrimary)
		if r.Chance(1, 5) {
			n = 0
		}
		if r.Chance(1, 40) {
			n = []int{127, 128, 129, 200, 257}[r.Intn(5)] // large collections (thresholds at which code may switch strategy)
		}
		ct := &s.Types[r.Intn(len(s.Types))]
		d.ColType = ct.Name
		for i := 0; i < n; i++ {
			t := ct
			if d.Holder == "Resources" && r.Chance(1, 3) {
				t = &s.Types[r.Intn(len(s.Types))] // mixed types
			}
			d.Primary = append(d.Primary, genResource(r, t, id()))
		}
	case "identifier":
		d.Idents = [][2]string{{s.Types[r.Intn(len(s.Types))].Name, id()}}
	case "identifiers":
		n := r.Range(0, o.MaxPrimary)
		for i := 0; i < n; i++ {
			d.Idents = append(d.Idents, [2]string{s.Types[r.Intn(len(s.Types))].Name, id()})
		}
	}
	ni := r.Range(0, o.MaxIncluded)
	if r.Chance(1, 3) {
		ni = 0
	}
	if r.Chance(1, 40) {
		ni = []int{31, 32, 33, 48, 64, 130}[r.Intn(6)] // many included resources
	}
	for i := 0; i < ni; i++ {
		t := &s.Types[r.Intn(len(s.Types))]
		d.Included = append(d.Included, genResource(r, t, id()))
	}
	d.Meta = genMeta(r, 3)
	if o.Errors && r.Chance(1, 6) {
		n := r.Range(1, 4)
		for i := 0; i < n; i++ {
			d.Errors = append(d.Errors, genErrSpec(r))
		}
	}
	for i := range s.Types {
		t := &s.Types[i]
		if sel, ok := genSelection(r, t); ok {
			d.Fields[t.Name] = sel
		}
		switch r.Intn(4) {
		case 0:
		case 1:
			d.RelData[t.Name] = t.RelNames()
		default:
			rd := subsetStrings(r, shuffleStrings(r, t.RelNames()))
			if r.Chance(1, 5) {
				rd = append(rd, "unknown-rel")
			}
			d.RelData[t.Name] = rd
		}
	}
	d.Frags = []string{s.Types[0].Name}
	if d.Kind == "resource" || d.Kind == "identifier" {
		d.Frags = append(d.Frags, r.Pick([]string{"some-id", "some-id", "a b", "50%", "é/x", "a%20b", "q?x=1#f"}))
	}
	// relationship URLs (/type/id/relationships/rel and /type/id/rel): what a relationship endpoint answers with
	if t0r := s.Types[0].Rels; len(t0r) > 0 && ((d.Kind == "identifier" || d.Kind == "identifiers" || d.Kind == "null") && r.Bool() || r.Chance(1, 10)) {
		rel := t0r[r.Intn(len(t0r))].Name
		rid := r.Pick([]string{"some-id", "u1", "a b", "50%"})
		if r.Chance(2, 3) {
			d.Frags = []string{s.Types[0].Name, rid, "relationships", rel}
		} else {
			d.Frags = []string{s.Types[0].Name, rid, rel}
		}
	}
	if r.Chance(1, 8) {
		d.Links = map[string]string{"next": "/n?page=2", "about": genString(r)}
	}
	d.ResMeta = r.Chance(1, 4)
	if r.Chance(1, 12) {
		d.NilFields = true
		d.Fields = map[string][]string{}
	}
	d.NotCol = r.Chance(1, 8)
	d.URLRelData = r.Chance(1, 3)
	d.SpareCap = r.Chance(1, 3)
	t0 := &s.Types[0]
	if r.Chance(1, 4) {
		// a filter with unsorted lists (nothing about marshaling may reorder them)
		vals := shuffleStrings(r, []string{"z9", "m5", "a1", "k3"})[:r.Range(2, 4)]
		f := FSpec{Op: "in", Field: "some-field", IsList: true, Strs: vals}
		if r.Bool() {
			f = FSpec{Op: r.Pick([]string{"and", "or"}), Kids: []FSpec{f, {Op: "in", Field: "other", IsList: true, Strs: []string{"b", "a"}}}}
		}
		d.URLFilter = &f
	}
	if len(d.Frags) == 1 && r.Chance(1, 3) {
		for _, a := range t0.Attrs {
			if r.Bool() {
				d.URLSort = append(d.URLSort, r.Pick([]string{"", "-"})+a.Name)
			}
		}
		d.URLSort = append(d.URLSort, "id")
		if r.Bool() {
			d.URLPage = [][2]any{{"size", r.Intn(50)}, {"number", r.Intn(5)}}
		}
	}
	if r.Chance(1, 3) {
		// inclusion paths that exist in the schema, from the URL's type
		for n := r.Range(1, 2); n > 0; n-- {
			cur := t0
			var path []string
			for depth := r.Range(1, 3); depth > 0 && cur != nil && len(cur.Rels) > 0; depth-- {
				rl := cur.Rels[r.Intn(len(cur.Rels))]
				path = append(path, rl.Name)
				cur = s.Type(rl.ToType)
			}
			if len(path) > 0 {
				d.URLInc = append(d.URLInc, path)
			}
		}
	}
	return d
}

// docBuilt is a materialised document with handles for later inspection.
type docBuilt struct {
	Doc      *jsonapi.Document
	URL      *jsonapi.URL
	Schema   *jsonapi.Schema
	Primary  []jsonapi.Resource // the resource objects handed to the holder
	Included []jsonapi.Resource
}

func copyStrMap(m map[string][]string) map[string][]string {
	out := map[string][]string{}
	for k, v := range m {
		out[k] = append([]string{}, v...)
	}
	return out
}

// build materialises the document and URL (fresh objects on every call).
func (d *DocSpec) build() *docBuilt {
	b := &docBuilt{Schema: buildSchema(d.Schema)}
	doc := &jsonapi.Document{PrePath: d.Prefix, RelData: copyStrMap(d.RelData)}
	mk := func(rs *ResSpec) jsonapi.Resource { return buildResource(rs.ownType(d.Schema.Type(rs.Type)), rs) }
	switch d.Kind {
	case "null":
		doc.Data = nil
	case "resource":
		res := mk(d.Primary[0])
		b.Primary = []jsonapi.Resource{res}
		doc.Data = res
	case "collection":
		switch d.Holder {
		case "SoftCollection":
			ct := *d.Schema.Type(d.ColType)
			ct.Wrapped = false
			typ := buildType(&ct)
			sc := &jsonapi.SoftCollection{}
			sc.SetType(&typ)
			for _, rs := range d.Primary {
				res := mk(rs)
				b.Primary = append(b.Primary, res)
				sc.Add(res)
			}
			doc.Data = sc
		case "WrapperCollection":
			ct := *d.Schema.Type(d.ColType)
			ct.Wrapped = true
			wc := jsonapi.WrapCollection(newResource(&ct))
			for _, rs := range d.Primary {
				res := buildResource(&ct, rs)
				b.Primary = append(b.Primary, res)
				wc.Add(res)
			}
			doc.Data = wc
		default:
			col := &jsonapi.Resources{}
			for _, rs := range d.Primary {
				res := mk(rs)
				b.Primary = append(b.Primary, res)
				col.Add(res)
			}
			doc.Data = col
		}
	case "identifier":
		doc.Data = jsonapi.Identifier{Type: d.Idents[0][0], ID: d.Idents[0][1]}
	case "identifiers":
		ids := jsonapi.Identifiers{}
		for _, p := range d.Idents {
			ids = append(ids, jsonapi.Identifier{Type: p[0], ID: p[1]})
		}
		// lists of one type (and empty lists) are built the way callers build them: through NewIdentifiers
		oneType := true
		for _, p := range d.Idents {
			if p[0] != d.Idents[0][0] {
				oneType = false
			}
		}
		if oneType && (len(d.Idents) == 0 || len(d.Idents)%2 == 1) {
			tn, list := d.Schema.Types[0].Name, []string{}
			for _, p := range d.Idents {
				tn = p[0]
				list = append(list, p[1])
			}
			if len(list) == 0 && len(d.Schema.Types)%2 == 0 {
				list = nil
			}
			ids = jsonapi.NewIdentifiers(tn, list)
		}
		doc.Data = ids
	}
	for _, rs := range d.Included {
		res := mk(rs)
		b.Included = append(b.Included, res)
		doc.Included = append(doc.Included, res)
	}
	if d.Meta != nil {
		doc.Meta = jsonapi.Meta{}
		for k, v := range d.Meta {
			doc.Meta[k] = v
		}
	}
	for _, e := range d.Errors {
		doc.Errors = append(doc.Errors, e.build())
	}
	if d.Links != nil {
		doc.Links = map[string]jsonapi.Link{}
		for k, v := range d.Links {
			doc.Links[k] = jsonapi.Link{HRef: v}
		}
	}
	if d.ResMeta {
		specs := append(append([]*ResSpec{}, d.Primary...), d.Included...)
		for i, res := range append(append([]jsonapi.Resource{}, b.Primary...), b.Included...) {
			if mh, ok := res.(jsonapi.MetaHolder); ok && i < len(specs) {
				mh.SetMeta(jsonapi.Meta{"resource-meta": "of-" + specs[i].Type + "/" + specs[i].ID, "count": len(specs[i].ID)})
			}
		}
	}
	b.Doc = doc
	b.URL = &jsonapi.URL{
		Fragments: append([]string{}, d.Frags...),
		IsCol:     len(d.Frags) == 1,
		ResType:   d.Frags[0],
		Params:    &jsonapi.Params{Fields: copyStrMap(d.Fields), SortingRules: []string{}, Page: map[string]any{}},
	}
	if d.NilFields && len(d.Fields) == 0 {
		b.URL.Params.Fields = nil
	}
	if len(d.Frags) >= 2 {
		b.URL.ResID = d.Frags[1]
	}
	if len(d.Frags) >= 3 {
		if t := d.Schema.Type(d.Frags[0]); t != nil {
			if rl := t.Rel(d.Frags[len(d.Frags)-1]); rl != nil {
				b.URL.Rel = jsonapi.Rel{FromType: t.Name, FromName: rl.Name, ToOne: rl.ToOne, ToType: rl.ToType, ToName: rl.ToName, FromOne: rl.FromOne}
				b.URL.IsCol = !rl.ToOne
				b.URL.ResType = rl.ToType
				b.URL.BelongsToFilter = jsonapi.BelongsToFilter{Type: d.Frags[0], ID: d.Frags[1], Name: rl.Name, ToName: rl.ToName}
				b.URL.RelKind = "related"
				if len(d.Frags) == 4 {
					b.URL.RelKind = "self"
				}
			}
		}
	}
	if d.NotCol {
		b.URL.IsCol = false
	}
	if d.URLRelData {
		b.URL.Params.RelData = map[string][]string{}
		for i := range d.Schema.Types {
			b.URL.Params.RelData[d.Schema.Types[i].Name] = d.Schema.Types[i].RelNames()
		}
	}
	if d.SpareCap {
		for k, v := range b.URL.Params.Fields {
			b.URL.Params.Fields[k] = append(make([]string, 0, len(v)+3), v...)
		}
		for k, v := range doc.RelData {
			doc.RelData[k] = append(make([]string, 0, len(v)+2), v...)
		}
	}
	if d.URLFilter != nil {
		b.URL.Params.Filter = d.URLFilter.build()
	}
	b.URL.Params.SortingRules = append(b.URL.Params.SortingRules, d.URLSort...)
	for _, kv := range d.URLPage {
		b.URL.Params.Page[kv[0].(string)] = kv[1]
	}
	for _, path := range d.URLInc {
		cur := d.Schema.Type(d.Frags[0])
		var rels []jsonapi.Rel
		for _, name := range path {
			if cur == nil {
				break
			}
			rl := cur.Rel(name)
			if rl == nil {
				break
			}
			rels = append(rels, jsonapi.Rel{FromType: cur.Name, FromName: rl.Name, ToOne: rl.ToOne, ToType: rl.ToType, ToName: rl.ToName, FromOne: rl.FromOne})
			cur = d.Schema.Type(rl.ToType)
		}
		if len(rels) > 0 {
			b.URL.Params.Include = append(b.URL.Params.Include, rels)
		}
	}
	return b
}

// primaryWrappedAs reports how a primary resource's type is seen by the output
// (SoftCollection / WrapperCollection convert to their own collection type).
func (d *DocSpec) allResources() []*ResSpec {
	return append(append([]*ResSpec{}, d.Primary...), d.Included...)
}

func (d *DocSpec) nontrivialShape() bool {
	return len(d.Included) > 0 || (d.Kind == "collection" && len(d.Primary) >= 2)
}
