package main

import (
	"fmt"
	"sort"

	"github.com/mfcochauxlaberge/jsonapi"
)

// C16 — two-way relationships have one canonical representative.
type c16 struct{}

func init() { register(c16{}) }

func (c16) ID() string { return "C16" }
func (c16) Size(tier string) Size {
	if tier == "thorough" {
		return Size{Batches: 16, Cases: 25000}
	}
	return Size{Batches: 16, Cases: 4000}
}
func (c16) Rule() string {
	return "directed: ALL Rel values with type and relationship names in {a,b,aa,ab,ba,bb} (inverse name also empty) x 4 cardinality combinations, plus the same over names with '_' and '-'; generated: random Rel values over a colliding name pool, and coherent schemas (Check empty, FromType = owner, one-way and two-way relationships) materialised in several type/field insertion orders with Rels() called repeatedly. Oracle: algebraic laws on Invert/Normalize/String and my own pairing of the schema's relationships. The name pool has case variants (a/A, ab/Ab/aB/AB, é/É), padded names and names with quotes. Non-trivial = two-way relationship or schema with >= 2 relationships."
}
func (c16) Assumptions() []string {
	return []string{"domain: type names, relationship names and target types non-empty; inverse name may be empty; a relationship with identical (type,name) on both ends has equal cardinalities (it is one relationship)",
		"map iteration order is sampled, not enumerated: each schema's Rels() is called repeatedly (every call re-ranges the maps)"}
}
func (c16) Floors(tier string, c map[string]int64) []string {
	var out []string
	if c["rel_two_way"] < 1000 {
		out = append(out, "fewer than 1000 two-way relationship values checked")
	}
	if c["schemas"] < 100 {
		out = append(out, "fewer than 100 coherent schemas checked")
	}
	if c["schemas_built_stepwise"] == 0 || c["rels_calls_while_building"] == 0 {
		out = append(out, "no schema was built step by step with Rels() queried in between")
	}
	return out
}

func relStr(r jsonapi.Rel) string {
	return fmt.Sprintf("{%s.%s(toOne=%v) -> %s.%s(fromOne=%v)}", r.FromType, r.FromName, r.ToOne, r.ToType, r.ToName, r.FromOne)
}

func (c16) checkRel(c *Ctx, r jsonapi.Rel) {
	c.Count("evaluations")
	var inv, inv2, n, nn, ninv jsonapi.Rel
	var s1, s2 string
	if pi := Guard(func() {
		inv = r.Invert()
		inv2 = inv.Invert()
		n = r.Normalize()
		nn = n.Normalize()
		ninv = inv.Normalize()
		s1 = r.String()
		s2 = inv.String()
	}); pi != nil {
		c.Violate("panic@"+pi.Frame, "%s: %s", relStr(r), pi)
		return
	}
	collide := r.FromType+r.FromName == r.ToType+r.ToName && (r.FromType != r.ToType)
	cls := "plain"
	if collide {
		cls = "concat-collision"
		c.Count("rel_concat_collisions")
	}
	if inv2 != r {
		c.Violate("invert-not-involution", "Invert(Invert(%s)) = %s", relStr(r), relStr(inv2))
	}
	if n != r && n != inv {
		c.Violate("normalize-not-member/"+cls, "Normalize(%s) = %s is neither the relationship nor its inverse", relStr(r), relStr(n))
	}
	if nn != n {
		c.Violate("normalize-not-idempotent/"+cls, "Normalize(%s) = %s but normalising again gives %s", relStr(r), relStr(n), relStr(nn))
	}
	if r.ToName == "" {
		c.Count("rel_one_way")
		if n != r {
			c.Violate("normalize-touches-one-way", "Normalize(%s) = %s", relStr(r), relStr(n))
		}
		return
	}
	c.Count("rel_two_way")
	if n != ninv {
		c.Violate("normalize-differs-from-inverse/"+cls, "Normalize(%s) = %s but Normalize(inverse) = %s", relStr(r), relStr(n), relStr(ninv))
	}
	if s1 != s2 {
		c.Violate("string-differs-from-inverse/"+cls, "String(%s) = %q but String(inverse) = %q", relStr(r), s1, s2)
	}
	c.Nontrivial("rel" + relStr(r))
}

func (m c16) sweep(c *Ctx, names []string) {
	toNames := append([]string{""}, names...)
	for _, ft := range names {
		for _, fn := range names {
			for _, tt := range names {
				for _, tn := range toNames {
					for card := 0; card < 4; card++ {
						r := jsonapi.Rel{FromType: ft, FromName: fn, ToType: tt, ToName: tn, ToOne: card&1 == 1, FromOne: card&2 == 2}
						if ft == tt && fn == tn && r.ToOne != r.FromOne {
							// a relationship that is its own inverse cannot have two cardinalities: the laws about
							// Normalize do not apply to such a value, but inverting it twice still gives it back
							var inv2 jsonapi.Rel
							if pi := Guard(func() { i1 := r.Invert(); inv2 = i1.Invert() }); pi != nil {
								c.Violate("panic@"+pi.Frame, "%s: %s", relStr(r), pi)
							} else if inv2 != r {
								c.Violate("invert-not-involution/self-inverse", "Invert(Invert(%s)) = %s", relStr(r), relStr(inv2))
							}
							c.Count("self_inverse_involutions")
							continue
						}
						m.checkRel(c, r)
					}
				}
			}
		}
	}
}

func (m c16) Directed(c *Ctx) {
	c.Name = "small-scope-sweep"
	m.sweep(c, []string{"a", "b", "aa", "ab", "ba", "bb"})
	m.sweep(c, []string{"a", "a_a", "a_", "_a", "a-a", "-"})
	m.sweep(c, []string{"a", "a a", "a ", " a", " ", "\""})
	// names that differ only in how a number inside them is written
	m.sweep(c, []string{"v1", "v01", "v001", "v10", "v2", "1"})
	m.sweep(c, []string{"n18446744073709551616", "n18446744073709551617", "n99999999999999999999", "n099999999999999999999", "n9", "n"})
	// type names may be empty in a Rel value (a relationship written before its owner is known)
	c.Name = "empty-type-names"
	for _, ft := range []string{"", "a", "b"} {
		for _, tt := range []string{"", "a", "b"} {
			for _, fn := range []string{"a", "b", "parent"} {
				for _, tn := range []string{"", "a", "b", "children"} {
					for card := 0; card < 4; card++ {
						r := jsonapi.Rel{FromType: ft, FromName: fn, ToType: tt, ToName: tn, ToOne: card&1 == 1, FromOne: card&2 == 2}
						if ft == tt && fn == tn && r.ToOne != r.FromOne {
							continue
						}
						m.checkRel(c, r)
						c.Count("rels_with_empty_type_name")
					}
				}
			}
		}
	}
	c.Name = "witness-rels-space-collision"
	m.schemaCase(c, &SchemaSpec{Types: []TypeSpec{
		{Name: "user", Rels: []RelSpec{{Name: "best friend", ToType: "profile"}, {Name: "best", ToType: "friend profile"}}},
		{Name: "profile"}, {Name: "friend profile"},
	}}, NewRNG(3))
	m.schemaCase(c, &SchemaSpec{Types: []TypeSpec{
		{Name: "a", Rels: []RelSpec{{Name: "x y", ToType: "z", ToName: "w"}, {Name: "x", ToType: "y z", ToName: "w"}}},
		{Name: "z", Rels: []RelSpec{{Name: "w", ToType: "a", ToName: "x y"}}},
		{Name: "y z", Rels: []RelSpec{{Name: "w", ToType: "a", ToName: "x"}}},
	}}, NewRNG(4))
	c.Extra["exhaustive_subspaces"] = []string{"all Rel values with FromType, FromName, ToType in {a,b,aa,ab,ba,bb}, ToName in the same set or empty, all 4 cardinality combinations (every concatenation collision of that scope)", "the same over {a,a_a,a_,_a,a-a,-}"}
	// regression witnesses
	c.Name = "witness-rels-underscore-collision"
	m.schemaCase(c, &SchemaSpec{Types: []TypeSpec{
		{Name: "a_b", Rels: []RelSpec{{Name: "c", ToType: "a"}}},
		{Name: "a", Rels: []RelSpec{{Name: "b_c", ToType: "a"}}},
	}}, NewRNG(1))
	c.Name = "witness-rels-order-tie"
	m.schemaCase(c, &SchemaSpec{Types: []TypeSpec{
		{Name: "ab", Rels: []RelSpec{{Name: "c", ToType: "a"}}},
		{Name: "a", Rels: []RelSpec{{Name: "bc", ToType: "a"}}},
	}}, NewRNG(2))
}

var c16Names = []string{"a", "b", "ab", "bc", "c", "a_b", "b_c", "a-b", "abc", "_", "a_", "_b", "a b", "b c", " ", "a ", " b", "a b c", "\"", "a\" \"b", "A", "B", "Ab", "aB", "AB", "é", "É", "v1", "v01", "v001", "shard2", "shard10", "shard010", "n18446744073709551616", "n18446744073709551617"}

func (m c16) Case(c *Ctx, r *RNG) {
	// random Rel values
	for i := 0; i < 8; i++ {
		rel := jsonapi.Rel{FromType: r.Pick(c16Names), FromName: r.Pick(c16Names), ToType: r.Pick(c16Names), ToOne: r.Bool(), FromOne: r.Bool()}
		if r.Chance(3, 4) {
			rel.ToName = r.Pick(c16Names)
		}
		if r.Chance(1, 6) && rel.ToName != "" { // force a concatenation collision
			whole := rel.FromType + rel.FromName
			cut := r.Range(1, len(whole)-1)
			if len(whole) >= 2 {
				rel.ToType, rel.ToName = whole[:cut], whole[cut:]
			}
		}
		if rel.FromType == rel.ToType && rel.FromName == rel.ToName {
			rel.FromOne = rel.ToOne
		}
		m.checkRel(c, rel)
	}
	// a coherent schema
	nt := r.Range(1, 4)
	names := genDistinctNames(r, c16Names, nt)
	s := &SchemaSpec{}
	for _, n := range names {
		s.Types = append(s.Types, TypeSpec{Name: n})
	}
	used := map[string]bool{}
	nrel := r.Range(0, 6)
	unmirrored := r.Chance(1, 3)
	for i := 0; i < nrel; i++ {
		a := r.Intn(nt)
		b := r.Intn(nt)
		n1 := r.Pick(c16Names)
		if used[names[a]+"\x00"+n1] {
			continue
		}
		if r.Bool() { // one-way
			used[names[a]+"\x00"+n1] = true
			s.Types[a].Rels = append(s.Types[a].Rels, RelSpec{Name: n1, ToOne: r.Bool(), ToType: names[b]})
			continue
		}
		n2 := r.Pick(c16Names)
		if a == b && r.Chance(1, 4) {
			// a relationship that is its own inverse (people.friends <-> people.friends): one entry, one cardinality
			used[names[a]+"\x00"+n1] = true
			one := r.Bool()
			s.Types[a].Rels = append(s.Types[a].Rels, RelSpec{Name: n1, ToOne: one, ToType: names[a], ToName: n1, FromOne: one})
			c.Count("self_inverse_relationships")
			continue
		}
		if used[names[b]+"\x00"+n2] || (a == b && n1 == n2) {
			continue
		}
		used[names[a]+"\x00"+n1], used[names[b]+"\x00"+n2] = true, true
		o1, o2 := r.Bool(), r.Bool()
		f1, f2 := o2, o1
		if unmirrored {
			// what struct tags give: FromOne is never filled in, so the two sides do not mirror each other's
			// cardinalities. Check does not look at cardinalities: the schema is coherent all the same.
			f1, f2 = r.Chance(1, 4), r.Chance(1, 4)
		}
		s.Types[a].Rels = append(s.Types[a].Rels, RelSpec{Name: n1, ToOne: o1, ToType: names[b], ToName: n2, FromOne: f1})
		s.Types[b].Rels = append(s.Types[b].Rels, RelSpec{Name: n2, ToOne: o2, ToType: names[a], ToName: n1, FromOne: f2})
	}
	if unmirrored {
		c.Count("schemas_with_unmirrored_cardinalities")
	}
	m.schemaCase(c, s, r)
	c.Sample(map[string]any{"coherent_schema": s})
}

type relKey struct{ t, n string }

func (m c16) schemaCase(c *Ctx, s *SchemaSpec, r *RNG) {
	c.Count("evaluations")
	c.Count("schemas")
	// expected entries from my own pairing
	type entry struct{ a, b relKey } // b zero for one-way; a <= b
	expect := map[entry]int{}
	nrels := 0
	for _, t := range s.Types {
		for _, rel := range t.Rels {
			nrels++
			if rel.ToName == "" {
				expect[entry{a: relKey{t.Name, rel.Name}}] = 0
				continue
			}
			x, y := relKey{t.Name, rel.Name}, relKey{rel.ToType, rel.ToName}
			if y.t < x.t || (y.t == x.t && y.n < x.n) {
				x, y = y, x
			}
			expect[entry{x, y}] = 0
		}
	}
	literal := false
	build := func(order []int, rr *RNG) *jsonapi.Schema {
		sc := &jsonapi.Schema{}
		for _, ti := range order {
			t := s.Types[ti]
			typ := jsonapi.Type{Name: t.Name}
			for _, ri := range rr.Perm(len(t.Rels)) {
				rel := t.Rels[ri]
				if err := typ.AddRel(jsonapi.Rel{FromType: t.Name, FromName: rel.Name, ToOne: rel.ToOne, ToType: rel.ToType, ToName: rel.ToName, FromOne: rel.FromOne}); err != nil {
					panic("harness: " + err.Error())
				}
			}
			if literal {
				sc.Types = append(sc.Types, typ) // assembled as a literal / by appending: AddType never sees the type
				continue
			}
			if err := sc.AddType(typ); err != nil {
				panic("harness: " + err.Error())
			}
		}
		return sc
	}
	// the same schema built step by step through the schema's own editing calls, with Rels()
	// queried while it grows and after relationships were removed again ("how the schema was built")
	buildStepwise := func(order []int, rr *RNG) *jsonapi.Schema {
		sc := &jsonapi.Schema{}
		for _, ti := range order {
			if err := sc.AddType(jsonapi.Type{Name: s.Types[ti].Name}); err != nil {
				panic("harness: " + err.Error())
			}
		}
		type pend struct {
			owner string
			rel   RelSpec
		}
		var todo []pend
		for _, t := range s.Types {
			for _, rel := range t.Rels {
				todo = append(todo, pend{t.Name, rel})
			}
		}
		done := map[relKey]bool{}
		for _, i := range rr.Perm(len(todo)) {
			p := todo[i]
			if rr.Chance(1, 2) {
				_ = sc.Rels()
				c.Count("rels_calls_while_building")
			}
			if done[relKey{p.owner, p.rel.Name}] {
				continue
			}
			full := jsonapi.Rel{FromType: p.owner, FromName: p.rel.Name, ToOne: p.rel.ToOne, ToType: p.rel.ToType, ToName: p.rel.ToName, FromOne: p.rel.FromOne}
			if p.rel.ToName != "" && !(p.owner == p.rel.ToType && p.rel.Name == p.rel.ToName) && !done[relKey{p.rel.ToType, p.rel.ToName}] && rr.Bool() {
				if err := sc.AddTwoWayRel(full); err != nil {
					panic("harness: AddTwoWayRel: " + err.Error())
				}
				done[relKey{p.owner, p.rel.Name}], done[relKey{p.rel.ToType, p.rel.ToName}] = true, true
			} else {
				if err := sc.AddRel(p.owner, full); err != nil {
					panic("harness: AddRel: " + err.Error())
				}
				done[relKey{p.owner, p.rel.Name}] = true
			}
			if rr.Chance(1, 4) {
				// add a stray relationship, look, and remove it again
				if err := sc.AddRel(p.owner, jsonapi.Rel{FromType: p.owner, FromName: "zz-stray", ToType: p.owner}); err == nil {
					_ = sc.Rels()
					sc.RemoveRel(p.owner, "zz-stray")
				}
			}
		}
		return sc
	}
	// when the two sides of some pair do not mirror each other's cardinalities, which side's copy represents the
	// pair is not determined by the statement: then the listing is compared by names only
	mirrored := true
	for _, t := range s.Types {
		for _, rel := range t.Rels {
			if rel.ToName == "" {
				continue
			}
			if p := s.Type(rel.ToType); p != nil {
				if q := p.Rel(rel.ToName); q != nil && (q.ToOne != rel.FromOne || q.FromOne != rel.ToOne) {
					mirrored = false
				}
			}
		}
	}
	orders := c.Pick(4, 8)
	var first []string
	for o := 0; o < orders; o++ {
		order := r.Perm(len(s.Types))
		var sc *jsonapi.Schema
		var errs []error
		if pi := Guard(func() {
			if o%2 == 1 {
				sc = buildStepwise(order, r)
				c.Count("schemas_built_stepwise")
			} else {
				literal = o%4 == 2
				if literal {
					c.Count("schemas_built_as_literals")
				}
				sc = build(order, r)
			}
			errs = sc.Check()
		}); pi != nil {
			c.Violate("panic@"+pi.Frame+"/schema-build", "%s: %s", jsonStr(s), pi)
			return
		}
		if len(errs) != 0 {
			c.Count("schemas_check_nonempty_skipped") // C15 decides Check; not coherent by the library's own word
			return
		}
		for call := 0; call < 3; call++ {
			var rels []jsonapi.Rel
			if pi := Guard(func() { rels = sc.Rels() }); pi != nil {
				c.Violate("panic@"+pi.Frame+"/Rels", "%s: %s", jsonStr(s), pi)
				return
			}
			c.Count("rels_calls")
			seq := []string{}
			seen := map[entry]int{}
			for _, rel := range rels {
				if mirrored {
					seq = append(seq, relStr(rel))
				} else {
					x, y := fmt.Sprintf("%q.%q", rel.FromType, rel.FromName), fmt.Sprintf("%q.%q", rel.ToType, rel.ToName)
					if rel.ToName != "" && y < x {
						x, y = y, x
					}
					seq = append(seq, x+"<->"+y)
				}
				var e entry
				if rel.ToName == "" {
					e = entry{a: relKey{rel.FromType, rel.FromName}}
				} else {
					x, y := relKey{rel.FromType, rel.FromName}, relKey{rel.ToType, rel.ToName}
					if y.t < x.t || (y.t == x.t && y.n < x.n) {
						x, y = y, x
					}
					e = entry{x, y}
				}
				if _, ok := expect[e]; !ok {
					c.Violate("rels-foreign-entry", "Rels() of %s lists %s which is no relationship of the schema", jsonStr(s), relStr(rel))
					return
				}
				seen[e]++
				// the entry must be one of the schema's relationships as declared (or, for a pair, either side)
				ts := s.Type(rel.FromType)
				if ts == nil || ts.Rel(rel.FromName) == nil {
					c.Violate("rels-foreign-entry", "Rels() of %s lists %s whose owner does not declare it", jsonStr(s), relStr(rel))
					return
				}
			}
			for e := range expect {
				if seen[e] != 1 {
					kind := "two-way-pair"
					if e.b == (relKey{}) {
						kind = "one-way"
					}
					c.Violate(fmt.Sprintf("rels-%s-listed-%d-times", kind, minInt(seen[e], 2)), "Rels() of %s = %v lists %v %d times (want once); %d relationships declared", jsonStr(s), seq, e, seen[e], nrels)
					return
				}
			}
			if first == nil {
				first = seq
			} else if !sameSeq(first, seq) {
				c.Violate("rels-order-depends-on-build-or-call", "Rels() of %s gave %v and then %v", jsonStr(s), first, seq)
				return
			}
		}
	}
	if nrels >= 2 {
		ks := []string{}
		for e := range expect {
			ks = append(ks, fmt.Sprint(e))
		}
		sort.Strings(ks)
		c.Nontrivial("schema" + jsonStr(s))
	}
}

func minInt(a, b int) int {
	if a < b {
		return a
	}
	return b
}
