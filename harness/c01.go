package main

import (
	"fmt"
	"math/big"

	"github.com/mfcochauxlaberge/jsonapi"
)

// C01 — resource values survive a marshal/unmarshal round trip.
type c01 struct{}

func init() { register(c01{}) }

func (c01) ID() string { return "C01" }
func (c01) Size(tier string) Size {
	if tier == "thorough" {
		return Size{Batches: 32, Cases: 10000}
	}
	return Size{Batches: 16, Cases: 1200}
}
func (c01) Rule() string {
	return "case = random schema (1-4 soft/struct-backed types over the 28 attribute kinds) + one resource with boundary-biased pool values; marshaled with all fields and all relationship data through MarshalResource and through MarshalDocument, unmarshaled with UnmarshalResource/UnmarshalDocument against the same schema and compared with the *spec* by my own value semantics (math/big, code points, instants, bytes, nil-ness, to-many as sets). Directed part: every pool value of every kind through both implementations. Non-trivial = resource with at least one non-zero attribute or non-empty relationship; distinct = canonical spec hash."
}
func (c01) Assumptions() []string {
	return []string{"the harness's materialiser (Type.New/Wrap + Set) stores the spec value; this is itself checked by reading the value back before marshaling",
		"domain as quantified: valid UTF-8, local years 1..9999, whole-minute zone offsets, non-nil *[]byte points to a non-nil slice"}
}
func (c01) Floors(tier string, c map[string]int64) []string {
	var out []string
	if c["roundtrip_ok"] < 100 {
		out = append(out, fmt.Sprintf("only %d successful round trips observed", c["roundtrip_ok"]))
	}
	if c["impl/wrapped"] == 0 || c["impl/soft"] == 0 {
		out = append(out, "one of the two resource implementations was never exercised")
	}
	return out
}

func allFieldsAndRelData(s *SchemaSpec) (map[string][]string, map[string][]string) {
	fields, relData := map[string][]string{}, map[string][]string{}
	for i := range s.Types {
		fields[s.Types[i].Name] = s.Types[i].FieldNames()
		relData[s.Types[i].Name] = s.Types[i].RelNames()
	}
	return fields, relData
}

func (m c01) roundTrip(c *Ctx, s *SchemaSpec, schema *jsonapi.Schema, t *TypeSpec, rs *ResSpec, prefix string, viaDoc bool) {
	impl := "soft"
	if t.Wrapped {
		impl = "wrapped"
	}
	c.Count("impl/" + impl)
	c.Count("evaluations")
	var res jsonapi.Resource
	if pi := Guard(func() { res = buildResource(t, rs) }); pi != nil {
		c.Violate("panic@"+pi.Frame+"/build", "building %s: %s", rs.canon(), pi)
		return
	}
	// the source resource must itself hold the spec (guards the harness, and C17 covers it as a property)
	// the resource must read what was put into it: what the statement calls "the resource" is the value
	// that was Set (C17 judges this law in general; here it is the left-hand side of the round trip)
	if cl, msg := compareResource(t, rs, res, nil, false); cl != "" {
		c.Violate("source-reads-differently/"+cl+"/"+impl, "a freshly built resource does not read the value that was set: %s; spec=%s", msg, clip(rs.canon(), 800))
		return
	}
	fields, relData := allFieldsAndRelData(s)
	var out []byte
	var got jsonapi.Resource
	var err error
	entry := "MarshalResource"
	if viaDoc {
		entry = "MarshalDocument"
	}
	pi := Guard(func() {
		if !viaDoc {
			out = jsonapi.MarshalResource(res, prefix, fields[t.Name], relData)
			got, err = jsonapi.UnmarshalResource(out, schema)
			keptPayloadCheck(c, "MarshalResource", out)
			return
		}
		url := &jsonapi.URL{Fragments: []string{t.Name, "x"}, ResType: t.Name, ResID: "x", Params: &jsonapi.Params{Fields: fields}}
		doc := &jsonapi.Document{Data: res, RelData: relData, PrePath: prefix}
		out, err = jsonapi.MarshalDocument(doc, url)
		if err != nil {
			return
		}
		var d2 *jsonapi.Document
		d2, err = jsonapi.UnmarshalDocument(out, schema)
		if err == nil {
			got, _ = d2.Data.(jsonapi.Resource)
		}
	})
	if pi != nil {
		c.Violate("panic@"+pi.Frame+"/"+panicClass(pi.Val)+"/"+entry, "%s on %s: %s", entry, rs.canon(), pi)
		return
	}
	if err != nil {
		c.Violate("roundtrip-error/"+entry+"/"+impl, "round trip of %s failed: %v; bytes=%s", rs.canon(), err, clip(string(out), 600))
		return
	}
	if cl, msg := compareResource(t, rs, got, nil, false); cl != "" {
		c.Violate("value-changed/"+cl+"/"+impl, "%s: %s; spec=%s bytes=%s", entry, msg, clip(rs.canon(), 800), clip(string(out), 800))
		return
	}
	// the result must be of the same implementation family as the schema type creates
	c.Count("roundtrip_ok")
	for _, a := range t.Attrs {
		c.Count("kind/" + kindName(a.Kind, a.Null))
	}
	if rs.nontrivial(t) {
		c.Nontrivial(jsonStr(t) + rs.canon())
	}
}

func (m c01) Case(c *Ctx, r *RNG) {
	s := genSchema(r, genOpts{MaxTypes: 4, MaxAttrs: 6, MaxRels: 3, AllowWrap: true})
	schema := buildSchema(s)
	t := &s.Types[r.Intn(len(s.Types))]
	rs := genResource(r, t, genID(r))
	prefix := []string{"", "/", "https://example.org", "https://example.org/api/", "/v1"}[r.Intn(5)]
	m.roundTrip(c, s, schema, t, rs, prefix, false)
	m.roundTrip(c, s, schema, t, rs, prefix, true)
	c.Sample(map[string]any{"type": t, "resource": rs, "prefix": prefix})
	// the same resource as a member of a collection that mixes the schema's types (any position)
	var members []*ResSpec
	for i := r.Range(1, 4); i > 0; i-- {
		mt := &s.Types[r.Intn(len(s.Types))]
		members = append(members, genResource(r, mt, genID(r)))
	}
	pos := r.Intn(len(members) + 1)
	members = append(members[:pos], append([]*ResSpec{rs}, members[pos:]...)...)
	m.collectionRoundTrip(c, s, schema, members, prefix)
}

// collectionRoundTrip marshals resources of several types as one Resources collection, with all fields
// and all relationship data, and reads them back with UnmarshalCollection.
func (m c01) collectionRoundTrip(c *Ctx, s *SchemaSpec, schema *jsonapi.Schema, members []*ResSpec, prefix string) {
	c.Count("evaluations")
	fields, relData := allFieldsAndRelData(s)
	var out []byte
	var got jsonapi.Collection
	var err error
	if pi := Guard(func() {
		col := &jsonapi.Resources{}
		for _, rs := range members {
			col.Add(buildResource(s.Type(rs.Type), rs))
		}
		out = jsonapi.MarshalCollection(col, prefix, fields, relData)
		got, err = jsonapi.UnmarshalCollection(out, schema)
	}); pi != nil {
		c.Violate("panic@"+pi.Frame+"/"+panicClass(pi.Val)+"/collection", "%s; members %s", pi, clip(jsonStr(members), 1500))
		return
	}
	if err != nil {
		c.Violate("roundtrip-error/MarshalCollection", "%v; bytes %s", err, clip(string(out), 600))
		return
	}
	if got == nil || got.Len() != len(members) {
		c.Violate("collection-length", "%d members sent; bytes %s", len(members), clip(string(out), 600))
		return
	}
	for i, rs := range members {
		if cl, msg := compareResource(s.Type(rs.Type), rs, got.At(i), nil, false); cl != "" {
			c.Violate("value-changed/collection-member/"+cl, "member %d of a mixed-type collection: %s; members %s bytes %s", i, msg, clip(jsonStr(members), 1200), clip(string(out), 900))
			return
		}
	}
	c.Count("collection_roundtrip_ok")
}

// poolValues enumerates the full value pool of a kind.
func poolValues(k int, null bool) []Val {
	var out []Val
	add := func(v Val) { v.K, v.Null = k, null; out = append(out, v) }
	switch {
	case k == KString:
		for _, s := range stringPool {
			add(Val{S: s})
		}
	case isIntKind(k):
		lo, hi := intRange(k)
		seen := map[string]bool{}
		try := func(x *big.Int) {
			if x.Cmp(lo) >= 0 && x.Cmp(hi) <= 0 && !seen[x.String()] {
				seen[x.String()] = true
				add(Val{I: x.String()})
			}
		}
		for d := int64(0); d <= 2; d++ {
			try(new(big.Int).Add(lo, big.NewInt(d)))
			try(new(big.Int).Sub(hi, big.NewInt(d)))
			try(big.NewInt(d))
			try(big.NewInt(-d))
		}
		for b := uint(0); b <= 64; b++ {
			p := new(big.Int).Lsh(big.NewInt(1), b)
			for d := int64(-1); d <= 1; d++ {
				x := new(big.Int).Add(p, big.NewInt(d))
				try(x)
				try(new(big.Int).Neg(x))
			}
		}
	case k == KBool:
		add(Val{B: true})
		add(Val{B: false})
	case k == KTime:
		for _, sec := range []int64{-62135596800, 253402300799, 0, -1, 1574223421, 951782400, -62135596800 + 86400} {
			for _, ns := range []int{0, 1, 999999999, 123456789, 500000000, 120000000} {
				for _, off := range []int{0, -14 * 60, 14 * 60, -5 * 60, 330, 1, -1} {
					local := sec + int64(off)*60
					if local < -62135596800 || local > 253402300799 {
						continue
					}
					add(Val{Sec: sec, Nsec: ns, Off: off})
				}
			}
		}
	case k == KBytes:
		for _, b := range bytesPool {
			add(Val{Bytes: b})
		}
		big := make([]byte, 1000)
		for i := range big {
			big[i] = byte(i * 7)
		}
		add(Val{Bytes: big})
	}
	if null {
		add(Val{Nil: true})
		add(Val{UNil: true})
	}
	return out
}

// Two different struct types that have the SAME Go name (each is local to its own function, like Account in
// v1/models and v2/models): nothing may identify a struct type by its name.
func c01localA() any {
	type rec struct {
		ID   string   `json:"id" api:"members"`
		Name string   `json:"name" api:"attr"`
		Refs []string `json:"refs" api:"rel,accounts"`
	}
	return &rec{ID: "m1", Name: "Ann", Refs: []string{"a2", "a1"}}
}

func c01localB() any {
	type rec struct {
		ID      string `json:"id" api:"accounts"`
		Balance int64  `json:"balance" api:"attr"`
		Owner   string `json:"owner" api:"rel,members"`
	}
	return &rec{ID: "a1", Balance: 1 << 40, Owner: "m1"}
}

func (m c01) sameNamedStructs(c *Ctx) {
	c.Name = "same-named-struct-types"
	for round := 0; round < 2; round++ {
		objs := []any{c01localA(), c01localB()}
		if round == 1 {
			objs[0], objs[1] = objs[1], objs[0]
		}
		if pi := Guard(func() {
			schema := &jsonapi.Schema{}
			for _, o := range objs {
				typ, err := jsonapi.BuildType(o)
				if err != nil {
					panic("harness: " + err.Error())
				}
				if err := schema.AddType(typ); err != nil {
					panic("harness: " + err.Error())
				}
			}
			for _, o := range objs {
				src := jsonapi.Wrap(o)
				fields := []string{}
				for n := range src.Attrs() {
					fields = append(fields, n)
				}
				for n := range src.Rels() {
					fields = append(fields, n)
				}
				relData := map[string][]string{src.GetType().Name: fields}
				out := jsonapi.MarshalResource(src, "/", fields, relData)
				back, err := jsonapi.UnmarshalResource(out, schema)
				c.Count("same_named_struct_roundtrips")
				if err != nil {
					c.Violate("roundtrip-error/same-named-structs", "%T (%s): %v; payload %s", o, src.GetType().Name, err, clip(string(out), 400))
					return
				}
				a, b := snapshotRes(src), snapshotRes(back)
				a.Vals, b.Vals = setVals(src), setVals(back)
				if d := a.diff(b); d != "" {
					c.Violate("value-changed/same-named-structs", "%T (%s) came back different: %s; payload %s", o, src.GetType().Name, d, clip(string(out), 400))
					return
				}
			}
		}); pi != nil {
			c.Violate("panic@"+pi.Frame+"/"+panicClass(pi.Val)+"/same-named-structs", "%s", pi)
			return
		}
	}
}

// setVals reads every field, to-many lists as sets.
func setVals(res jsonapi.Resource) map[string]string {
	s := setSnapshot(res)
	return s.Vals
}

func (m c01) Directed(c *Ctx) {
	m.sameNamedStructs(c)
	tagOptCheck(c, "C01")
	c.Name = "pool-sweep"
	for _, wrapped := range []bool{false, true} {
		for _, k := range allKinds {
			for _, null := range []bool{false, true} {
				t := TypeSpec{Name: "t1", Wrapped: wrapped, Attrs: []AttrSpec{{Name: "v", Kind: k, Null: null}},
					Rels: []RelSpec{{Name: "one", ToOne: true, ToType: "t1"}, {Name: "many", ToType: "t1"}}}
				s := &SchemaSpec{Types: []TypeSpec{t}}
				schema := buildSchema(s)
				for _, v := range poolValues(k, null) {
					rs := &ResSpec{Type: "t1", ID: "id", Attrs: map[string]Val{"v": v}, ToOne: map[string]string{"one": ""}, ToMany: map[string][]string{"many": {}}}
					m.roundTrip(c, s, schema, &s.Types[0], rs, "/", false)
					m.roundTrip(c, s, schema, &s.Types[0], rs, "/", true)
					c.Count("pool_sweep_values")
				}
			}
		}
		// IDs and relationship IDs from the pools
		t := TypeSpec{Name: "t1", Wrapped: wrapped, Rels: []RelSpec{{Name: "one", ToOne: true, ToType: "t1"}, {Name: "many", ToType: "t1"}}}
		s := &SchemaSpec{Types: []TypeSpec{t}}
		schema := buildSchema(s)
		for _, id := range append(append([]string{}, idPool...), stringPool...) {
			rs := &ResSpec{Type: "t1", ID: id, ToOne: map[string]string{"one": id}, ToMany: map[string][]string{"many": dedup([]string{id, "zz", "a", id + "x"})}}
			m.roundTrip(c, s, schema, &s.Types[0], rs, "/", false)
			m.roundTrip(c, s, schema, &s.Types[0], rs, "/", true)
		}
	}
	c.Extra["exhaustive_subspaces"] = []string{"every value of the shared value pools (strings, integer boundaries ±2 and 2^k±1 per width, bools, times×nanos×zones, byte strings, typed/untyped nil) × 28 kinds × {soft, wrapped} × {MarshalResource, MarshalDocument}", "every ID pool string as resource ID, to-one ID and to-many member"}
}
