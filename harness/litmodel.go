package main

import (
	"fmt"
	"math/big"
	"regexp"
	"strconv"
	"strings"
)

// My own readers of JSON value texts: number -> big.Rat, RFC 3339 -> (sec,nsec),
// base64 -> bytes. They never call the library under judgement.

var jsonNumberRE = regexp.MustCompile(`^-?(0|[1-9][0-9]*)(\.[0-9]+)?([eE][+-]?[0-9]+)?$`)

// readNumber returns the exact rational a JSON number literal denotes.
func readNumber(text string) (*big.Rat, bool) {
	if !jsonNumberRE.MatchString(text) {
		return nil, false
	}
	mant, exp := text, 0
	if i := strings.IndexAny(text, "eE"); i >= 0 {
		mant = text[:i]
		e, err := strconv.Atoi(text[i+1:])
		if err != nil || e > 5000 || e < -5000 {
			return nil, false
		}
		exp = e
	}
	r, ok := new(big.Rat).SetString(mant)
	if !ok {
		return nil, false
	}
	p := new(big.Int).Exp(big.NewInt(10), big.NewInt(int64(absInt(exp))), nil)
	if exp >= 0 {
		r.Mul(r, new(big.Rat).SetInt(p))
	} else {
		r.Quo(r, new(big.Rat).SetInt(p))
	}
	return r, true
}

func absInt(a int) int {
	if a < 0 {
		return -a
	}
	return a
}

var rfc3339RE = regexp.MustCompile(`^([0-9]{4})-([0-9]{2})-([0-9]{2})T([0-9]{2}):([0-9]{2}):([0-9]{2})(\.[0-9]{1,9})?(Z|[+-][0-9]{2}:[0-9]{2})$`)

func daysFromCivil(y, m, d int64) int64 {
	if m <= 2 {
		y--
	}
	era := y / 400
	if y < 0 {
		era = (y - 399) / 400
	}
	yoe := y - era*400
	mp := (m + 9) % 12
	doy := (153*mp+2)/5 + d - 1
	doe := yoe*365 + yoe/4 - yoe/100 + doy
	return era*146097 + doe - 719468
}

// readRFC3339 reads a strictly formatted RFC 3339 time. strict=false means my
// reader does not vouch for the text (then no judgement is made on acceptance).
func readRFC3339(s string) (sec int64, nsec int, strict bool) {
	m := rfc3339RE.FindStringSubmatch(s)
	if m == nil {
		return 0, 0, false
	}
	n := func(x string) int64 { v, _ := strconv.ParseInt(x, 10, 64); return v }
	y, mo, d, h, mi, se := n(m[1]), n(m[2]), n(m[3]), n(m[4]), n(m[5]), n(m[6])
	if mo < 1 || mo > 12 || d < 1 || h > 23 || mi > 59 || se > 59 {
		return 0, 0, false
	}
	dim := []int64{31, 28, 31, 30, 31, 30, 31, 31, 30, 31, 30, 31}[mo-1]
	if mo == 2 && (y%4 == 0 && (y%100 != 0 || y%400 == 0)) {
		dim = 29
	}
	if d > dim {
		return 0, 0, false
	}
	if m[7] != "" {
		frac := m[7][1:]
		for len(frac) < 9 {
			frac += "0"
		}
		nsec = int(n(frac))
	}
	off := int64(0)
	if m[8] != "Z" {
		oh, om := n(m[8][1:3]), n(m[8][4:6])
		if oh > 23 || om > 59 {
			return 0, 0, false
		}
		off = oh*3600 + om*60
		if m[8][0] == '-' {
			off = -off
		}
	}
	sec = daysFromCivil(y, mo, d)*86400 + h*3600 + mi*60 + se - off
	return sec, nsec, true
}

// impossibleRFC3339: the text has the RFC 3339 shape but its month, day (for that month and year), hour or minute
// does not exist. Such a text denotes no instant, so whatever is stored for it is not "the value the JSON denotes"
// (second 60 and unusual offsets are left alone: leap seconds are legal RFC 3339 and readers differ on offsets).
func impossibleRFC3339(s string) bool {
	m := rfc3339RE.FindStringSubmatch(s)
	if m == nil {
		return false
	}
	n := func(x string) int64 { v, _ := strconv.ParseInt(x, 10, 64); return v }
	y, mo, d, h, mi := n(m[1]), n(m[2]), n(m[3]), n(m[4]), n(m[5])
	if mo < 1 || mo > 12 || d < 1 || h > 23 || mi > 59 {
		return true
	}
	dim := []int64{31, 28, 31, 30, 31, 30, 31, 31, 30, 31, 30, 31}[mo-1]
	if mo == 2 && (y%4 == 0 && (y%100 != 0 || y%400 == 0)) {
		dim = 29
	}
	return d > dim
}

const b64alpha = "ABCDEFGHIJKLMNOPQRSTUVWXYZabcdefghijklmnopqrstuvwxyz0123456789+/"

// readBase64 decodes canonical, padded standard base64. strict=false: not canonical.
func readBase64(s string) ([]byte, bool) {
	if len(s)%4 != 0 {
		return nil, false
	}
	out := []byte{}
	for i := 0; i < len(s); i += 4 {
		q := s[i : i+4]
		var v [4]int
		pad := 0
		for j := 0; j < 4; j++ {
			if q[j] == '=' {
				if i+4 != len(s) || j < 2 {
					return nil, false
				}
				pad++
				v[j] = 0
				continue
			}
			if pad > 0 {
				return nil, false
			}
			k := strings.IndexByte(b64alpha, q[j])
			if k < 0 {
				return nil, false
			}
			v[j] = k
		}
		n := v[0]<<18 | v[1]<<12 | v[2]<<6 | v[3]
		switch pad {
		case 0:
			out = append(out, byte(n>>16), byte(n>>8), byte(n))
		case 1:
			if v[2]&0x3 != 0 {
				return nil, false
			}
			out = append(out, byte(n>>16), byte(n>>8))
		case 2:
			if v[1]&0xf != 0 {
				return nil, false
			}
			out = append(out, byte(n>>16))
		}
	}
	return out, true
}

func encodeBase64(b []byte) string {
	var sb strings.Builder
	for i := 0; i < len(b); i += 3 {
		var n, k int
		for j := 0; j < 3; j++ {
			n <<= 8
			if i+j < len(b) {
				n |= int(b[i+j])
				k++
			}
		}
		sb.WriteByte(b64alpha[n>>18&63])
		sb.WriteByte(b64alpha[n>>12&63])
		if k > 1 {
			sb.WriteByte(b64alpha[n>>6&63])
		} else {
			sb.WriteByte('=')
		}
		if k > 2 {
			sb.WriteByte(b64alpha[n&63])
		} else {
			sb.WriteByte('=')
		}
	}
	return sb.String()
}

// judgeLiteral decides one (kind, JSON value text) decode event.
// accepted: the library returned a value and no error. Returns clause + message.
func judgeLiteral(k int, null bool, text string, accepted bool, got any) (string, string) {
	if !accepted {
		return "", "" // rejecting is never a violation of C06
	}
	jv, err := parseJV([]byte(text))
	if err != nil {
		return "accepted-invalid-json", fmt.Sprintf("accepted %q which is not a JSON value", clip(text, 60))
	}
	kn := kindName(k, null)
	if jv.Kind == 'n' {
		if !null {
			return "null-for-non-nullable/" + kindNames[k], fmt.Sprintf("null accepted for non-nullable %s (stored %s)", kn, describeGo(got))
		}
		if ok, msg := matchVal(Val{K: k, Null: true, Nil: true}, got, true); !ok {
			return "null-not-nil/" + kindNames[k], "null decoded to " + msg
		}
		return "", ""
	}
	switch {
	case isIntKind(k):
		if jv.Kind != '0' {
			return "non-number-accepted/" + kindNames[k], fmt.Sprintf("%s accepted for %s (stored %s)", clip(text, 60), kn, describeGo(got))
		}
		rat, ok := readNumber(jv.Num)
		if !ok {
			return "", ""
		}
		lo, hi := intRange(k)
		if !rat.IsInt() {
			return "fraction-accepted/" + kindNames[k], fmt.Sprintf("%s accepted for %s (stored %s)", text, kn, describeGo(got))
		}
		n := rat.Num()
		if n.Cmp(lo) < 0 || n.Cmp(hi) > 0 {
			return "out-of-range-accepted/" + kindNames[k], fmt.Sprintf("%s accepted for %s (stored %s)", clip(text, 60), kn, describeGo(got))
		}
		if ok, msg := matchVal(Val{K: k, Null: null, I: n.String()}, got, true); !ok {
			return "int-value-changed/" + kindNames[k], fmt.Sprintf("%s decoded for %s to %s", text, kn, msg)
		}
	case k == KBool:
		if jv.Kind != 'b' {
			return "non-bool-accepted", fmt.Sprintf("%s accepted for %s", clip(text, 60), kn)
		}
		if ok, msg := matchVal(Val{K: k, Null: null, B: jv.B}, got, true); !ok {
			return "bool-value-changed", msg
		}
	case k == KString:
		if jv.Kind != 's' {
			return "non-string-accepted/string", fmt.Sprintf("%s accepted for %s (stored %s)", clip(text, 60), kn, describeGo(got))
		}
		if ok, msg := matchVal(Val{K: k, Null: null, S: jv.Str}, got, true); !ok {
			return "string-value-changed", msg
		}
	case k == KTime:
		if jv.Kind != 's' {
			return "non-string-accepted/time", fmt.Sprintf("%s accepted for %s", clip(text, 60), kn)
		}
		sec, nsec, strict := readRFC3339(jv.Str)
		if !strict {
			if impossibleRFC3339(jv.Str) {
				return "impossible-time-accepted", fmt.Sprintf("%s names a date or time of day that does not exist, yet it was accepted (stored %s)", text, describeGo(got))
			}
			return "lenient", ""
		}
		if ok, msg := matchVal(Val{K: k, Null: null, Sec: sec, Nsec: nsec}, got, true); !ok {
			return "time-value-changed", fmt.Sprintf("%s decoded to %s", text, msg)
		}
	case k == KBytes:
		if jv.Kind != 's' {
			return "non-string-accepted/bytes", fmt.Sprintf("%s accepted for %s", clip(text, 60), kn)
		}
		b, strict := readBase64(jv.Str)
		if !strict {
			return "lenient", ""
		}
		if ok, msg := matchVal(Val{K: k, Null: null, Bytes: b}, got, true); !ok {
			return "bytes-value-changed", fmt.Sprintf("%s decoded to %s", clip(text, 80), msg)
		}
	}
	return "", ""
}
