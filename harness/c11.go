package main

import (
	"sync"
	"crypto/sha256"
	"encoding/hex"
	"fmt"
	"os"
	"runtime"
	"sort"
	"strings"

	"github.com/mfcochauxlaberge/jsonapi"
)

// C11 — marshaling is deterministic and depends only on content.
type c11 struct{}

func init() { register(c11{}) }

func (c11) ID() string { return "C11" }
func (c11) Size(tier string) Size {
	if tier == "thorough" {
		return Size{Batches: 17, Cases: 2500} // batch 16 runs in a binary built with go1.26.8 when available
	}
	return Size{Batches: 8, Cases: 500}
}

const c11shared = 150 // specs marshaled by EVERY child process (digests compared by the parent)

func (c11) Rule() string {
	return "case = document + URL spec (as in C02-C04, also relationship URLs; 1 in 4 with included resources of different types sharing an ID, which are marshaled repeatedly but whose included list is not permuted) marshaled R times in-process (quick 20, thorough 100) alternately from freshly materialised equal-content inputs and from the same objects again, plus P permutations (to-many ID order, names inside the field selection and relationship-data lists, included order) which must all give byte-identical output; MarshalResource alone likewise; a fixed shared corpus of 150 specs is marshaled by every child process (separate hash seeds; in thorough one child is built with go1.26.8, another map implementation) and the parent compares the digests. A hook (build tag verif) records the actual key sequence of each map-ranging loop of MarshalResource / URL.String, so the evidence states how many distinct iteration orders were really walked. After marshaling, every Get value, the selection / relationship-data lists and the included list are compared (as sets where the statement allows reordering) with a snapshot taken before. Non-trivial = document whose resources have >= 2 attributes, >= 2 to-many IDs or >= 2 included; distinct = spec hash."
}
func (c11) Assumptions() []string {
	return []string{"map iteration order is chosen by the Go runtime and cannot be enumerated: it is sampled by repetition and by separate processes, and the sample is reported (distinct orders per hook site)",
		"the included list is permuted only when its resources have distinct IDs (the statement's precondition for reordering them); lists in which resources of different types share an ID are marshaled repeatedly without reordering"}
}
func (c11) Floors(tier string, c map[string]int64) []string {
	var out []string
	if c["marshals"] < 1000 {
		out = append(out, "fewer than 1000 marshal calls")
	}
	if c["permutation_marshals"] == 0 {
		out = append(out, "no permutation marshaled")
	}
	for _, site := range []string{"MarshalResource.attrs", "MarshalResource.rels", "URL.String.fields"} {
		if c["set_size/order/"+site] < 2 {
			out = append(out, "fewer than 2 distinct map iteration orders observed at hook site "+site)
		}
	}
	if c["set_size/go-runtime"] < 1 {
		out = append(out, "no child reported its Go runtime")
	}
	return out
}

func (c11) WorkerBinary(tier string, batch int) string {
	if tier == "thorough" && batch == 16 {
		alt := verifRoot + "/.build/verifmon-go126"
		if _, err := os.Stat(alt); err == nil {
			return alt
		}
	}
	return ""
}

func (c11) ParentCheck(tier string, counters map[string]int64, sets map[string]map[string]struct{}) []Violation {
	var out []Violation
	for _, k := range sortedKeys(sets) {
		if strings.HasPrefix(k, "shared-digest/") && len(sets[k]) > 1 {
			out = append(out, Violation{Sig: "differs-across-processes", Detail: fmt.Sprintf("shared spec %s marshaled to %d different outputs in different child processes: %v", k, len(sets[k]), sortedKeys(sets[k])), Batch: 0, Index: -1, Name: "shared-corpus"})
			if len(out) > 3 {
				break
			}
		}
	}
	return out
}

func (c11) EvidenceExtra(tier string, counters map[string]int64, sets map[string]map[string]struct{}) map[string]any {
	orders := map[string]int{}
	runtimes := []string{}
	shared := 0
	for k, m := range sets {
		if strings.HasPrefix(k, "order/") {
			orders[strings.TrimPrefix(k, "order/")] = len(m)
		}
		if k == "go-runtime" {
			runtimes = sortedKeys(m)
		}
		if strings.HasPrefix(k, "shared-digest/") {
			shared++
		}
	}
	return map[string]any{"distinct_iteration_orders_observed_per_hook_site": orders, "go_runtimes_of_child_processes": runtimes, "shared_specs_compared_across_processes": shared}
}

func digest(b []byte) string {
	h := sha256.Sum256(b)
	return hex.EncodeToString(h[:8])
}

// trace state. The worker is single-threaded, but the library is free to call the hook from goroutines of its own
// (an implementation that marshals resources in parallel is not wrong for that), so the monitor locks.
var c11trace map[string][]string
var c11traceMu sync.Mutex

func c11hook(site, key string) {
	c11traceMu.Lock()
	defer c11traceMu.Unlock()
	if c11trace != nil {
		c11trace[site] = append(c11trace[site], key)
	}
}

// permuted returns a copy of d with the order-irrelevant parts permuted.
func (d *DocSpec) permuted(r *RNG) *DocSpec {
	n := *d
	perm := func(rs *ResSpec) *ResSpec {
		c := *rs
		c.ToMany = map[string][]string{}
		for k, v := range rs.ToMany {
			c.ToMany[k] = shuffleStrings(r, v)
		}
		return &c
	}
	n.Primary = nil
	for _, rs := range d.Primary {
		n.Primary = append(n.Primary, perm(rs))
	}
	n.Included = make([]*ResSpec, len(d.Included))
	order := r.Perm(len(d.Included))
	if includedShareAnID(d) {
		// the statement allows reordering included resources "with distinct IDs" only
		for i := range order {
			order[i] = i
		}
	}
	for i, j := range order {
		n.Included[i] = perm(d.Included[j])
	}
	n.Fields = map[string][]string{}
	for k, v := range d.Fields {
		n.Fields[k] = shuffleStrings(r, v)
	}
	n.RelData = map[string][]string{}
	for k, v := range d.RelData {
		n.RelData[k] = shuffleStrings(r, v)
	}
	return &n
}

// copyingRes is a Resource written outside the library: it keeps its values in a SoftResource and never hands out
// its own slices.
type copyingRes struct{ in *jsonapi.SoftResource }

func (r copyingRes) Attrs() map[string]jsonapi.Attr { return r.in.Attrs() }
func (r copyingRes) Rels() map[string]jsonapi.Rel   { return r.in.Rels() }
func (r copyingRes) GetType() jsonapi.Type          { return r.in.GetType() }
func (r copyingRes) Set(key string, v any)          { r.in.Set(key, v) }
func (r copyingRes) Get(key string) any {
	switch v := r.in.Get(key).(type) {
	case []string:
		return append([]string{}, v...)
	case []byte:
		return append([]byte{}, v...)
	default:
		return v
	}
}

func includedShareAnID(d *DocSpec) bool {
	seen := map[string]bool{}
	for _, rs := range d.Included {
		if seen[rs.ID] {
			return true
		}
		seen[rs.ID] = true
	}
	return false
}

type c11snap struct {
	res     []resSnap
	fields  map[string][]string
	relData map[string][]string
	incl    []string
	url     string // everything else the URL carries, order-sensitive
}

func setSnapshot(res jsonapi.Resource) resSnap {
	s := snapshotRes(res)
	for k, r := range res.Rels() {
		if !r.ToOne {
			ids, _ := res.Get(r.FromName).([]string)
			s.Vals[k] = fmt.Sprintf("to-many-set:%q", sortedCopy(ids))
		}
	}
	return s
}

func c11snapshot(b *docBuilt) c11snap {
	s := c11snap{fields: map[string][]string{}, relData: map[string][]string{}}
	for _, r := range b.Primary {
		s.res = append(s.res, setSnapshot(r))
	}
	for _, r := range b.Included {
		s.res = append(s.res, setSnapshot(r))
	}
	for k, v := range b.URL.Params.Fields {
		s.fields[k] = sortedCopy(v)
	}
	for k, v := range b.Doc.RelData {
		s.relData[k] = sortedCopy(v)
	}
	for _, r := range b.Doc.Included {
		id, _ := r.Get("id").(string)
		s.incl = append(s.incl, r.GetType().Name+"/"+id)
	}
	sort.Strings(s.incl)
	var inc [][]string
	for _, path := range b.URL.Params.Include {
		var names []string
		for _, rl := range path {
			names = append(names, rl.FromType+"."+rl.FromName)
		}
		inc = append(inc, names)
	}
	s.url = jsonStr(map[string]any{"fragments": b.URL.Fragments, "filter": filterText(b.URL.Params.Filter), "label": b.URL.Params.FilterLabel,
		"sort": b.URL.Params.SortingRules, "page": b.URL.Params.Page, "include": inc, "type": b.URL.ResType, "id": b.URL.ResID, "is_col": b.URL.IsCol, "rel_kind": b.URL.RelKind, "rel": b.URL.Rel.String() + "/" + b.URL.Rel.ToType,
		"belongs_to": fmt.Sprint(b.URL.BelongsToFilter), "route": b.URL.Route, "text": b.URL.String(), "fields_nil": b.URL.Params.Fields == nil})
	return s
}

// filterText writes a filter tree with its values in the order they are held.
func filterText(f *jsonapi.Filter) string {
	if f == nil {
		return "nil"
	}
	if kids, ok := f.Val.([]*jsonapi.Filter); ok {
		parts := []string{}
		for _, k := range kids {
			parts = append(parts, filterText(k))
		}
		return f.Op + "(" + strings.Join(parts, ",") + ")"
	}
	return fmt.Sprintf("%s %s %#v", f.Field, f.Op, f.Val)
}

func (a c11snap) diff(b c11snap) string {
	if len(a.res) != len(b.res) {
		return "number of resources changed"
	}
	for i := range a.res {
		if d := a.res[i].diff(b.res[i]); d != "" {
			return fmt.Sprintf("resource %s/%s: %s", a.res[i].Type, a.res[i].ID, d)
		}
	}
	if jsonStr(a.fields) != jsonStr(b.fields) {
		return fmt.Sprintf("field selection %v -> %v", a.fields, b.fields)
	}
	if jsonStr(a.relData) != jsonStr(b.relData) {
		return fmt.Sprintf("relationship-data request %v -> %v", a.relData, b.relData)
	}
	if !sameSeq(a.incl, b.incl) {
		return fmt.Sprintf("included list %v -> %v", a.incl, b.incl)
	}
	if a.url != b.url {
		return fmt.Sprintf("URL %s -> %s", a.url, b.url)
	}
	return ""
}

func (m c11) marshalOnce(c *Ctx, b *docBuilt) ([]byte, bool) {
	var out []byte
	var err error
	c11traceMu.Lock()
	c11trace = map[string][]string{}
	c11traceMu.Unlock()
	jsonapi.VerifTrace = c11hook
	pi := Guard(func() { out, err = jsonapi.MarshalDocument(b.Doc, b.URL) })
	jsonapi.VerifTrace = nil
	c11traceMu.Lock()
	taken := c11trace
	c11trace = nil
	c11traceMu.Unlock()
	for site, keys := range taken {
		// one document marshals several resources: split per call is not needed, the whole
		// sequence identifies the walk; cap the text
		if len(keys) >= 2 {
			c.SetAdd("order/"+site, clip(strings.Join(keys, ","), 300))
		}
	}
	c.Count("marshals")
	c.Count("evaluations")
	if pi != nil {
		c.Violate("panic@"+pi.Frame+"/"+panicClass(pi.Val), "MarshalDocument: %s", pi)
		return nil, false
	}
	if err != nil {
		c.Violate("marshal-error", "MarshalDocument: %v", err)
		return nil, false
	}
	if !keptPayloadCheck(c, "MarshalDocument", out) {
		return nil, false
	}
	return out, true
}

func (m c11) check(c *Ctx, d *DocSpec, r *RNG, reps, perms int) (string, bool) {
	desc := func() string { return clip(jsonStr(d), 3000) }
	var first []byte
	var firstDesc string
	var same *docBuilt
	for i := 0; i < reps; i++ {
		var b *docBuilt
		how := "fresh equal-content objects"
		if i%2 == 1 && same != nil {
			b, how = same, "the same objects again"
		} else {
			if pi := Guard(func() { b = d.build() }); pi != nil {
				c.Violate("panic@"+pi.Frame+"/build", "%s; %s", pi, desc())
				return "", false
			}
			same = b
		}
		var before c11snap
		if pi := Guard(func() { before = c11snapshot(b) }); pi != nil {
			c.Violate("panic@"+pi.Frame+"/snapshot", "%s", pi)
			return "", false
		}
		out, ok := m.marshalOnce(c, b)
		if !ok {
			return "", false
		}
		var after c11snap
		if pi := Guard(func() { after = c11snapshot(b) }); pi != nil {
			c.Violate("panic@"+pi.Frame+"/snapshot", "%s", pi)
			return "", false
		}
		if df := before.diff(after); df != "" {
			c.Violate("marshal-mutates-input", "after MarshalDocument: %s; %s", df, desc())
			return "", false
		}
		if first == nil {
			first, firstDesc = out, how
			continue
		}
		if string(out) != string(first) {
			c.Violate("nondeterministic-output", "marshal #%d (%s) differs from marshal #0 (%s):\n%s\n%s\n%s", i, how, firstDesc, clip(string(first), 900), clip(string(out), 900), desc())
			return "", false
		}
	}
	// the SAME document again after its included list was permuted in place (same length), and a copy of the
	// Document value with a permuted list
	if same != nil && len(same.Doc.Included) >= 2 && !includedShareAnID(d) {
		for round := 0; round < 3; round++ {
			var out []byte
			ok := true
			if pi := Guard(func() {
				doc := same.Doc
				if round == 2 {
					cp := *same.Doc
					cp.Included = append([]jsonapi.Resource{}, same.Doc.Included...)
					doc = &cp
				}
				perm := r.Perm(len(doc.Included))
				shuffled := make([]jsonapi.Resource, len(doc.Included))
				for i, j := range perm {
					shuffled[i] = doc.Included[j]
				}
				copy(doc.Included, shuffled)
				out, ok = m.marshalOnce(c, &docBuilt{Doc: doc, URL: same.URL})
			}); pi != nil {
				c.Violate("panic@"+pi.Frame+"/in-place-permutation", "%s", pi)
				return "", false
			}
			if !ok {
				return "", false
			}
			c.Count("in_place_included_permutations")
			if string(out) != string(first) {
				c.Violate("output-depends-on-order/in-place", "the included list of an already marshaled document was permuted in place and the output changed:\n%s\n%s\n%s", clip(string(first), 900), clip(string(out), 900), desc())
				return "", false
			}
		}
	}
	for p := 0; p < perms; p++ {
		pd := d.permuted(r)
		var b *docBuilt
		if pi := Guard(func() { b = pd.build() }); pi != nil {
			c.Violate("panic@"+pi.Frame+"/build", "%s", pi)
			return "", false
		}
		out, ok := m.marshalOnce(c, b)
		if !ok {
			return "", false
		}
		c.Count("permutation_marshals")
		if string(out) != string(first) {
			c.Violate("output-depends-on-order", "a permutation of to-many IDs / selection names / relationship-data names / included order changed the output:\n%s\n%s\noriginal %s\npermuted %s", clip(string(first), 900), clip(string(out), 900), desc(), clip(jsonStr(pd), 2000))
			return "", false
		}
	}
	// a Resource implementation written by the caller that hands out COPIES of its slices (a defensive getter): the
	// library may sort what it was given, but what it writes must not depend on the stored order either
	if (d.Kind == "resource" || (d.Kind == "collection" && d.Holder == "Resources")) && len(d.Primary) > 0 && len(d.Errors) == 0 {
		var firstC []byte
		for p := 0; p < 3; p++ {
			pd := d
			if p > 0 {
				pd = d.permuted(r)
			}
			var b *docBuilt
			if pi := Guard(func() {
				b = pd.build()
				own := func(rs *ResSpec) jsonapi.Resource {
					t := *pd.Schema.Type(rs.Type)
					t.Wrapped = false
					return copyingRes{in: buildResource(&t, rs).(*jsonapi.SoftResource)}
				}
				if pd.Kind == "resource" {
					b.Doc.Data = own(pd.Primary[0])
				} else {
					col := jsonapi.Resources{}
					for _, rs := range pd.Primary {
						col = append(col, own(rs))
					}
					b.Doc.Data = &col
				}
			}); pi != nil {
				c.Violate("panic@"+pi.Frame+"/build", "%s", pi)
				return "", false
			}
			out, ok := m.marshalOnce(c, b)
			if !ok {
				return "", false
			}
			c.Count("marshals_of_caller_written_resources")
			if firstC == nil {
				firstC = out
			} else if string(out) != string(firstC) {
				c.Violate("output-depends-on-order/caller-written-resource", "resources of a caller-written type whose Get returns copies of its slices: a permutation of to-many IDs / names changed the output:\n%s\n%s\noriginal %s", clip(string(firstC), 900), clip(string(out), 900), desc())
				return "", false
			}
		}
	}
	// MarshalResource alone
	if len(d.Primary) > 0 {
		rs := d.Primary[0]
		t := d.Schema.Type(rs.Type)
		var firstR []byte
		for i := 0; i < 6; i++ {
			var out []byte
			if pi := Guard(func() {
				res := buildResource(t, rs)
				if i%2 == 1 {
					perm := *rs
					perm.ToMany = map[string][]string{}
					for k, v := range rs.ToMany {
						perm.ToMany[k] = shuffleStrings(r, v)
					}
					res = buildResource(t, &perm)
				}
				jsonapi.VerifTrace = c11hook
				c11traceMu.Lock()
	c11trace = map[string][]string{}
	c11traceMu.Unlock()
				out = jsonapi.MarshalResource(res, d.Prefix, shuffleStrings(r, t.FieldNames()), map[string][]string{t.Name: shuffleStrings(r, t.RelNames())})
				jsonapi.VerifTrace = nil
				c11traceMu.Lock()
				taken := c11trace
				c11trace = nil
				c11traceMu.Unlock()
				for site, keys := range taken {
					if len(keys) >= 2 {
						c.SetAdd("order/"+site, clip(strings.Join(keys, ","), 300))
					}
				}
			}); pi != nil {
				jsonapi.VerifTrace = nil
				c.Violate("panic@"+pi.Frame+"/MarshalResource", "%s", pi)
				return "", false
			}
			c.Count("marshals")
			if firstR == nil {
				firstR = out
			} else if string(out) != string(firstR) {
				c.Violate("nondeterministic-output/MarshalResource", "%s\n%s\n%s", clip(string(firstR), 700), clip(string(out), 700), jsonStr(rs))
				return "", false
			}
		}
	}
	return digest(first), true
}

func c11nontrivial(d *DocSpec) bool {
	if len(d.Included) >= 2 {
		return true
	}
	for _, rs := range d.allResources() {
		if len(d.Schema.Type(rs.Type).Attrs) >= 2 {
			return true
		}
		for _, v := range rs.ToMany {
			if len(v) >= 2 {
				return true
			}
		}
	}
	return false
}

func (m c11) Case(c *Ctx, r *RNG) {
	d := genDoc(r, docOpts{MaxPrimary: c.Pick(5, 12), MaxIncluded: c.Pick(5, 12), Errors: true, UniqueIDs: true})
	// to-many lists with a repeated ID (a list, not a set, is what a resource holds)
	if r.Chance(1, 3) {
		for _, rs := range d.allResources() {
			for k, v := range rs.ToMany {
				if len(v) >= 2 && r.Bool() {
					rs.ToMany[k] = append(append([]string{}, v...), v[r.Intn(len(v))])
					c.Count("to_many_with_repeated_id")
				}
			}
		}
	}
	// included resources of different types that have the same ID (users/1 and articles/1): repeated marshals are
	// still byte-identical; only the reordering clause is limited to distinct IDs
	if r.Chance(1, 4) && len(d.Included) >= 2 {
		for tries := 0; tries < 6; tries++ {
			i, j := r.Intn(len(d.Included)), r.Intn(len(d.Included))
			if d.Included[i].Type == d.Included[j].Type {
				continue
			}
			clash := false
			for _, rs := range d.allResources() {
				if rs.Type == d.Included[j].Type && rs.ID == d.Included[i].ID {
					clash = true
				}
			}
			if !clash {
				d.Included[j].ID = d.Included[i].ID
				c.Count("included_sharing_an_id_across_types")
				if r.Bool() {
					break
				}
			}
		}
	}
	if c.Index < 2 {
		c.Sample(d)
	}
	if _, ok := m.check(c, d, r, c.Pick(20, 100), c.Pick(6, 12)); ok && c11nontrivial(d) {
		c.Nontrivial(jsonStr(d))
	}
}

// Directed marshals the shared corpus: the same specs in every child process.
func (m c11) Directed(c *Ctx) { m.shared(c) }

func (m c11) shared(c *Ctx) {
	c.SetAdd("go-runtime", runtime.Version())
	for i := 0; i < c11shared; i++ {
		r := NewRNG(c.Seed, strSeed("C11-shared"), uint64(i))
		d := genDoc(r, docOpts{MaxPrimary: 8, MaxIncluded: 8, Errors: true, UniqueIDs: true})
		if dg, ok := m.check(c, d, r, 3, 2); ok {
			c.SetAdd(fmt.Sprintf("shared-digest/%03d", i), dg)
		}
	}
}

// Finish: every batch (not only batch 0) marshals the shared corpus.
func (m c11) Finish(c *Ctx) {
	if c.Batch != 0 {
		m.shared(c)
	}
}
