//go:build race

package main

const raceEnabled = true
