module verifmon

go 1.21

require github.com/mfcochauxlaberge/jsonapi v0.0.0

replace github.com/mfcochauxlaberge/jsonapi => /repo
