package main

import (
	"fmt"
	"sort"
	"strings"

	"github.com/mfcochauxlaberge/jsonapi"
)

// C14 — schema editing keeps the schema well-formed and is all-or-nothing.
type c14 struct{}

func init() { register(c14{}) }

func (c14) ID() string { return "C14" }
func (c14) Size(tier string) Size {
	if tier == "thorough" {
		return Size{Batches: 16, Cases: 40000}
	}
	return Size{Batches: 16, Cases: 4000}
}
func (c14) Rule() string {
	return "case = history of 1-60 calls of AddType/RemoveType/AddAttr/RemoveAttr/AddRel/RemoveRel/AddTwoWayRel over 4 type names and 4 field names plus empty and unknown names, valid and invalid attribute kinds (0,15,99,-1,255,256 and numbers that equal a valid kind modulo 256, 2^16 or 2^32, with and without nullable), removal of first/middle/last type, two-way relationships in both directions and within one type; after EVERY call a snapshot of Types + HasType/GetType for every pool name is compared with a reference model (ordered list of name -> attrs, rels) stepped with the same call. Names that differ by surrounding white space or letter case ('a ', ' a', 'A') are different names. Non-trivial = history with >= 1 successful and >= 1 failing call and >= 2 types alive at some point; distinct = hash of the call list."
}
func (c14) Assumptions() []string {
	return []string{"nil and empty field maps are the same state (indistinguishable through the editing API's purpose); types handed to AddType are empty or carry well-formed fields",
		"success of an edit is demanded only where the statement demands it (AddTwoWayRel with existing types and free names); other edits may be refused, but a refusal must leave the state unchanged and a success must produce exactly the edit"}
}
func (c14) Floors(tier string, c map[string]int64) []string {
	var out []string
	for _, op := range []string{"AddType", "RemoveType", "AddAttr", "RemoveAttr", "AddRel", "RemoveRel", "AddTwoWayRel"} {
		if c["op_ok/"+op] == 0 {
			out = append(out, "no successful "+op)
		}
	}
	for _, op := range []string{"AddType", "AddAttr", "AddRel", "AddTwoWayRel"} {
		if c["op_err/"+op] == 0 {
			out = append(out, "no failing "+op)
		}
	}
	if c["remove_nonlast_type"] == 0 {
		out = append(out, "no removal of a first/middle type")
	}
	if c["blind_histories"] == 0 {
		out = append(out, "no history without intermediate lookups")
	}
	if c["twoway_must_succeed"] == 0 {
		out = append(out, "no AddTwoWayRel with satisfied preconditions")
	}
	return out
}

type mType struct {
	Name  string
	Attrs map[string]jsonapi.Attr
	Rels  map[string]jsonapi.Rel
}

func (t mType) String() string {
	var sb strings.Builder
	fmt.Fprintf(&sb, "%q{attrs:", t.Name)
	for _, k := range sortedKeys(t.Attrs) {
		a := t.Attrs[k]
		fmt.Fprintf(&sb, "[%q:%q,%d,%v]", k, a.Name, a.Type, a.Nullable)
	}
	sb.WriteString(" rels:")
	for _, k := range sortedKeys(t.Rels) {
		r := t.Rels[k]
		fmt.Fprintf(&sb, "[%q:%s]", k, relStr(r))
	}
	sb.WriteString("}")
	return sb.String()
}

type mSchema []mType

func (s mSchema) String() string {
	parts := []string{}
	for _, t := range s {
		parts = append(parts, t.String())
	}
	return "[" + strings.Join(parts, " ") + "]"
}

// canon is the schema as a SET of types: the statement says nothing about the order of the list after an edit.
func (s mSchema) canon() string {
	parts := []string{}
	for _, t := range s {
		parts = append(parts, t.String())
	}
	sort.Strings(parts)
	return "{" + strings.Join(parts, " ") + "}"
}

func (s mSchema) find(name string) int {
	for i := range s {
		if s[i].Name == name {
			return i
		}
	}
	return -1
}

func (s mSchema) clone() mSchema {
	out := make(mSchema, len(s))
	for i, t := range s {
		nt := mType{Name: t.Name, Attrs: map[string]jsonapi.Attr{}, Rels: map[string]jsonapi.Rel{}}
		for k, v := range t.Attrs {
			nt.Attrs[k] = v
		}
		for k, v := range t.Rels {
			nt.Rels[k] = v
		}
		out[i] = nt
	}
	return out
}

func snapshotSchema(sc *jsonapi.Schema) mSchema {
	out := make(mSchema, len(sc.Types))
	for i, t := range sc.Types {
		nt := mType{Name: t.Name, Attrs: map[string]jsonapi.Attr{}, Rels: map[string]jsonapi.Rel{}}
		for k, v := range t.Attrs {
			nt.Attrs[k] = v
		}
		for k, v := range t.Rels {
			nt.Rels[k] = v
		}
		out[i] = nt
	}
	return out
}

type c14op struct {
	Op   string        `json:"op"`
	Type string        `json:"type,omitempty"`
	Name string        `json:"name,omitempty"`
	Attr *jsonapi.Attr `json:"attr,omitempty"`
	Rel  *jsonapi.Rel  `json:"rel,omitempty"`
	NewT *mType        `json:"new_type,omitempty"`
}

func (o c14op) String() string { return jsonStr(o) }

var c14Types = []string{"a", "b", "ab", "t"}
var c14Fields = []string{"a", "b", "ab", "f"}

func validKind(k int) bool { return k >= KString && k <= KBytes }

func (m c14) genOp(r *RNG) c14op {
	tname := func() string {
		switch r.Intn(10) {
		case 0:
			return ""
		case 1:
			return "unknown"
		case 2:
			// names that differ only by surrounding white space or letter case are different names
			return r.Pick([]string{"a ", " a", "A", "a ", "t "})
		}
		return r.Pick(c14Types)
	}
	fname := func() string {
		switch r.Intn(12) {
		case 0:
			return ""
		case 1:
			return "zz"
		case 2:
			return r.Pick([]string{"a ", " a", "A", "F"})
		}
		return r.Pick(c14Fields)
	}
	kind := func() int {
		if r.Chance(1, 5) {
			return []int{0, 15, 99, -1, 257, 270, 524, -254, -242, 65550, 4294967297, 255, 256}[r.Intn(13)] // round 15: kinds that equal a valid one modulo 256 / 2^16 / 2^32
		}
		return allKinds[r.Intn(len(allKinds))]
	}
	switch r.Intn(14) {
	case 0, 1, 2:
		t := &mType{Name: tname(), Attrs: map[string]jsonapi.Attr{}, Rels: map[string]jsonapi.Rel{}}
		if r.Bool() {
			for _, f := range subsetStrings(r, c14Fields) {
				if r.Bool() {
					t.Attrs[f] = jsonapi.Attr{Name: f, Type: allKinds[r.Intn(len(allKinds))], Nullable: r.Bool()}
				} else {
					t.Rels[f] = jsonapi.Rel{FromType: t.Name, FromName: f, ToOne: r.Bool(), ToType: r.Pick(c14Types)}
				}
			}
		}
		return c14op{Op: "AddType", NewT: t}
	case 3, 4:
		return c14op{Op: "RemoveType", Type: tname()}
	case 5, 6:
		return c14op{Op: "AddAttr", Type: tname(), Attr: &jsonapi.Attr{Name: fname(), Type: kind(), Nullable: r.Bool()}}
	case 7:
		return c14op{Op: "RemoveAttr", Type: tname(), Name: fname()}
	case 8, 9:
		tn := tname()
		to := r.Pick(c14Types)
		if r.Chance(1, 8) {
			to = ""
		}
		return c14op{Op: "AddRel", Type: tn, Rel: &jsonapi.Rel{FromType: tn, FromName: fname(), ToOne: r.Bool(), ToType: to}}
	case 10:
		return c14op{Op: "RemoveRel", Type: tname(), Name: fname()}
	default:
		return c14op{Op: "AddTwoWayRel", Rel: &jsonapi.Rel{FromType: tname(), FromName: fname(), ToOne: r.Bool(), ToType: tname(), ToName: fname(), FromOne: r.Bool()}}
	}
}

// apply steps the reference model with a call that the library reported as successful.
func (m c14) apply(s mSchema, o c14op) mSchema {
	s = s.clone()
	switch o.Op {
	case "AddType":
		nt := mType{Name: o.NewT.Name, Attrs: map[string]jsonapi.Attr{}, Rels: map[string]jsonapi.Rel{}}
		for k, v := range o.NewT.Attrs {
			nt.Attrs[k] = v
		}
		for k, v := range o.NewT.Rels {
			nt.Rels[k] = v
		}
		return append(s, nt)
	case "RemoveType":
		if i := s.find(o.Type); i >= 0 {
			return append(s[:i], s[i+1:]...)
		}
	case "AddAttr":
		if i := s.find(o.Type); i >= 0 {
			s[i].Attrs[o.Attr.Name] = *o.Attr
		}
	case "RemoveAttr":
		if i := s.find(o.Type); i >= 0 {
			delete(s[i].Attrs, o.Name)
		}
	case "AddRel":
		if i := s.find(o.Type); i >= 0 {
			s[i].Rels[o.Rel.FromName] = *o.Rel
		}
	case "RemoveRel":
		if i := s.find(o.Type); i >= 0 {
			delete(s[i].Rels, o.Name)
		}
	case "AddTwoWayRel":
		inv := o.Rel.Invert()
		if i := s.find(o.Rel.FromType); i >= 0 {
			s[i].Rels[o.Rel.FromName] = *o.Rel
		}
		if i := s.find(inv.FromType); i >= 0 {
			s[i].Rels[inv.FromName] = inv
		}
	}
	return s
}

func (m c14) invariants(s mSchema) (string, string) {
	seen := map[string]bool{}
	for _, t := range s {
		if t.Name == "" {
			return "empty-type-name", "a type has an empty name"
		}
		if seen[t.Name] {
			return "duplicate-type-name", fmt.Sprintf("type name %q occurs twice", t.Name)
		}
		seen[t.Name] = true
		for k, a := range t.Attrs {
			if a.Name == "" || k != a.Name {
				return "bad-attr-name", fmt.Sprintf("type %q attribute key %q name %q", t.Name, k, a.Name)
			}
			if !validKind(a.Type) {
				return "invalid-attr-kind", fmt.Sprintf("type %q attribute %q has invalid kind %d (nullable=%v)", t.Name, k, a.Type, a.Nullable)
			}
		}
		for k, r := range t.Rels {
			if r.FromName == "" || k != r.FromName {
				return "bad-rel-name", fmt.Sprintf("type %q relationship key %q name %q", t.Name, k, r.FromName)
			}
			if r.ToType == "" {
				return "empty-target-type", fmt.Sprintf("type %q relationship %q has no target type", t.Name, k)
			}
		}
	}
	return "", ""
}

func (m c14) history(c *Ctx, ops []c14op) {
	m.historyMode(c, ops, false)
}

// historyMode: blind = no lookup (HasType / GetType) is made between the edits; the list of types is read
// straight from Schema.Types after every call and the lookups are only compared at the very end. A lookup
// can refresh state that an edit left stale, so watching too closely would hide such defects.
func (m c14) historyMode(c *Ctx, ops []c14op, blind bool) {
	c.Count("evaluations")
	if blind {
		c.Count("blind_histories")
	}
	sc := &jsonapi.Schema{}
	model := mSchema{}
	nOK, nErr, maxTypes := 0, 0, 0
	for step, o := range ops {
		var err error
		returnsErr := true
		pre := model
		pi := Guard(func() {
			switch o.Op {
			case "AddType":
				t := jsonapi.Type{Name: o.NewT.Name}
				if len(o.NewT.Attrs) > 0 || step%2 == 0 {
					t.Attrs = map[string]jsonapi.Attr{}
					for k, v := range o.NewT.Attrs {
						t.Attrs[k] = v
					}
				}
				if len(o.NewT.Rels) > 0 || step%3 == 0 {
					t.Rels = map[string]jsonapi.Rel{}
					for k, v := range o.NewT.Rels {
						t.Rels[k] = v
					}
				}
				err = sc.AddType(t)
			case "RemoveType":
				returnsErr = false
				sc.RemoveType(o.Type)
			case "AddAttr":
				err = sc.AddAttr(o.Type, *o.Attr)
			case "RemoveAttr":
				returnsErr = false
				sc.RemoveAttr(o.Type, o.Name)
			case "AddRel":
				err = sc.AddRel(o.Type, *o.Rel)
			case "RemoveRel":
				returnsErr = false
				sc.RemoveRel(o.Type, o.Name)
			case "AddTwoWayRel":
				err = sc.AddTwoWayRel(*o.Rel)
			}
		})
		hist := func() string { return fmt.Sprintf("step %d of %s; model before: %s", step, jsonStr(ops[:step+1]), pre) }
		if pi != nil {
			cls := ""
			if o.Op == "RemoveType" {
				if i := pre.find(o.Type); i >= 0 && i < len(pre)-1 {
					cls = "/non-last-type"
				}
			}
			c.Violate("panic@"+pi.Frame+"/"+panicClass(pi.Val)+cls, "%s: %s", hist(), pi)
			return
		}
		if o.Op == "RemoveType" {
			if i := pre.find(o.Type); i >= 0 && i < len(pre)-1 {
				c.Count("remove_nonlast_type")
			}
		}
		snap := snapshotSchema(sc)
		_ = returnsErr
		if err != nil {
			nErr++
			c.Count("op_err/" + o.Op)
			if snap.String() != pre.String() {
				c.Violate("error-but-changed/"+o.Op+m.twoWayClass(pre, o), "%s returned %q but the schema changed: %s\n%s", o.Op, err, snap, hist())
				return
			}
		} else {
			nOK++
			c.Count("op_ok/" + o.Op)
			model = m.apply(pre, o)
			if snap.canon() != model.canon() {
				c.Violate("success-state-mismatch/"+o.Op+m.twoWayClass(pre, o), "after successful %s the schema is %s, the edit applied to the previous state gives %s\n%s", o.Op, snap, model, hist())
				return
			}
		}
		// AddTwoWayRel must succeed when its preconditions hold
		if o.Op == "AddTwoWayRel" {
			rel := *o.Rel
			fi, ti := pre.find(rel.FromType), pre.find(rel.ToType)
			ownInverse := rel.FromType == rel.ToType && rel.FromName == rel.ToName
			if fi >= 0 && ti >= 0 && rel.FromName != "" && rel.ToName != "" && !ownInverse {
				_, used1 := pre[fi].Rels[rel.FromName]
				_, used2 := pre[ti].Rels[rel.ToName]
				if !used1 && !used2 {
					c.Count("twoway_must_succeed")
					c.Count("twoway_class" + m.twoWayClass(pre, o))
					if err != nil {
						c.Violate("addtwoway-rejected"+m.twoWayClass(pre, o), "types exist and names are free but AddTwoWayRel(%s) returned %q\n%s", relStr(rel), err, hist())
						return
					}
				}
			}
		}
		if cl, msg := m.invariants(snap); cl != "" {
			c.Violate("invariant/"+cl+"/"+o.Op, "%s\n%s", msg, hist())
			return
		}
		// lookups agree with the list
		var lookErr string
		if blind && step < len(ops)-1 {
			if len(snap) > maxTypes {
				maxTypes = len(snap)
			}
			model = snap.clone()
			continue
		}
		if pi := Guard(func() {
			for _, n := range append([]string{"", "unknown", "a ", " a", "A", "t "}, c14Types...) {
				i := snap.find(n)
				if sc.HasType(n) != (i >= 0) {
					lookErr = fmt.Sprintf("HasType(%q)=%v but the list says %v", n, sc.HasType(n), i >= 0)
					return
				}
				g := sc.GetType(n)
				if i < 0 {
					if g.Name != "" || len(g.Attrs) != 0 || len(g.Rels) != 0 {
						lookErr = fmt.Sprintf("GetType(%q) returned %q for an absent type", n, g.Name)
					}
					continue
				}
				gs := mType{Name: g.Name, Attrs: g.Attrs, Rels: g.Rels}
				if gs.String() != snap[i].String() {
					lookErr = fmt.Sprintf("GetType(%q)=%s but the list holds %s", n, gs, snap[i])
					return
				}
			}
		}); pi != nil {
			c.Violate("panic@"+pi.Frame+"/lookup", "%s: %s", hist(), pi)
			return
		}
		if lookErr != "" {
			c.Violate("lookup-disagrees", "%s\n%s", lookErr, hist())
			return
		}
		if len(snap) > maxTypes {
			maxTypes = len(snap)
		}
		model = snap.clone()
	}
	if nOK >= 1 && nErr >= 1 && maxTypes >= 2 {
		c.Nontrivial(jsonStr(ops))
	}
}

func (m c14) twoWayClass(pre mSchema, o c14op) string {
	if o.Op != "AddTwoWayRel" {
		return ""
	}
	r := o.Rel
	switch {
	case pre.find(r.FromType) < 0 || pre.find(r.ToType) < 0:
		return "/missing-type"
	case r.FromType == r.ToType:
		return "/same-type"
	case r.FromType > r.ToType:
		return "/non-normalised"
	}
	return "/normalised"
}

func (m c14) Case(c *Ctx, r *RNG) {
	n := r.Range(1, 60)
	if r.Chance(1, 3) {
		n = r.Range(1, 12)
	}
	ops := make([]c14op, 0, n)
	// most histories start by creating a few types so that later calls have something to act on
	if r.Chance(3, 4) {
		for _, t := range subsetStrings(r, shuffleStrings(r, c14Types)) {
			ops = append(ops, c14op{Op: "AddType", NewT: &mType{Name: t, Attrs: map[string]jsonapi.Attr{}, Rels: map[string]jsonapi.Rel{}}})
		}
	}
	for len(ops) < n {
		ops = append(ops, m.genOp(r))
	}
	m.historyMode(c, ops, r.Bool())
	if c.Index < 2 {
		c.Sample(map[string]any{"history": ops})
	}
}

// ambiguity: for a two-way relationship R2 = (t1.n1 <-> t2.n2) whose names contain a separator, every OTHER way of
// cutting the joined text "t1<sep>n1<sep>t2<sep>n2" into a one-way relationship (type, name) or a two-way one
// (4 parts) is added first; then R2 is added. The names R2 needs are free (unless the cut coincides with R2's own
// ends), so AddTwoWayRel must succeed: nothing may identify a relationship by its joined names.
func (m c14) ambiguity(c *Ctx) {
	at := func(n string) c14op {
		return c14op{Op: "AddType", NewT: &mType{Name: n, Attrs: map[string]jsonapi.Attr{}, Rels: map[string]jsonapi.Rel{}}}
	}
	n := 0
	for _, sep := range []string{"_", " ", ""} {
		atoms := []string{"a", "b", "a" + sep + "b", "b" + sep + "c"}
		if sep == "" {
			atoms = []string{"a", "b", "ab", "ba"}
		}
		for _, t1 := range atoms {
			for _, n1 := range atoms {
				for _, t2 := range atoms {
					for _, n2 := range atoms {
						if t1 == t2 && n1 == n2 {
							continue // its own inverse: outside the domain
						}
						r2 := jsonapi.Rel{FromType: t1, FromName: n1, ToType: t2, ToName: n2, ToOne: (len(t1)+len(n2))%2 == 0}
						joined := strings.Join([]string{t1, n1, t2, n2}, sep)
						var cuts []int // positions where a separator starts
						if sep == "" {
							for i := 1; i < len(joined); i++ {
								cuts = append(cuts, i)
							}
						} else {
							for i := 0; i+len(sep) <= len(joined); i++ {
								if joined[i:i+len(sep)] == sep {
									cuts = append(cuts, i)
								}
							}
						}
						var alts []jsonapi.Rel
						for _, a := range cuts {
							alts = append(alts, jsonapi.Rel{FromType: joined[:a], FromName: joined[a+len(sep):], ToType: t2})
						}
						for i := 0; i < len(cuts); i++ {
							for j := i + 1; j < len(cuts); j++ {
								for k := j + 1; k < len(cuts); k++ {
									a, b, d := cuts[i], cuts[j], cuts[k]
									if a+len(sep) > b || b+len(sep) > d {
										continue
									}
									alt := jsonapi.Rel{FromType: joined[:a], FromName: joined[a+len(sep) : b], ToType: joined[b+len(sep) : d], ToName: joined[d+len(sep):]}
									if alt.FromType == t1 && alt.FromName == n1 && alt.ToType == t2 && alt.ToName == n2 {
										continue
									}
									alts = append(alts, alt)
								}
							}
						}
						for ai, alt := range alts {
							if alt.FromType == "" || alt.FromName == "" || alt.ToType == "" || (n%7 != 0 && ai > 3) {
								continue
							}
							if alt.ToName != "" && alt.FromType == alt.ToType && alt.FromName == alt.ToName {
								continue
							}
							ops := []c14op{}
							seen := map[string]bool{}
							for _, tn := range []string{t1, t2, alt.FromType, alt.ToType} {
								if !seen[tn] {
									seen[tn] = true
									ops = append(ops, at(tn))
								}
							}
							alt := alt
							if alt.ToName == "" {
								ops = append(ops, c14op{Op: "AddRel", Type: alt.FromType, Rel: &alt})
							} else {
								ops = append(ops, c14op{Op: "AddTwoWayRel", Rel: &alt})
							}
							r2 := r2
							ops = append(ops, c14op{Op: "AddTwoWayRel", Rel: &r2})
							c.Name = fmt.Sprintf("ambiguity-%q-%d", sep, n)
							m.historyMode(c, ops, n%2 == 0)
							n++
						}
					}
				}
			}
		}
	}
	c.Counters["ambiguity_histories"] += int64(n)
}

func (m c14) Directed(c *Ctx) {
	at := func(n string) c14op {
		return c14op{Op: "AddType", NewT: &mType{Name: n, Attrs: map[string]jsonapi.Attr{}, Rels: map[string]jsonapi.Rel{}}}
	}
	c.Name = "witness-remove-first-of-three"
	m.history(c, []c14op{at("a"), at("b"), at("t"), {Op: "RemoveType", Type: "a"}})
	c.Name = "witness-remove-middle"
	m.history(c, []c14op{at("a"), at("b"), at("t"), {Op: "RemoveType", Type: "b"}, {Op: "RemoveType", Type: "t"}, {Op: "RemoveType", Type: "a"}})
	c.Name = "witness-twoway-non-normalised"
	m.history(c, []c14op{at("a"), at("b"), {Op: "AddTwoWayRel", Rel: &jsonapi.Rel{FromType: "b", FromName: "f", ToOne: true, ToType: "a", ToName: "ab"}}})
	c.Name = "witness-twoway-same-type"
	m.history(c, []c14op{at("a"), {Op: "AddTwoWayRel", Rel: &jsonapi.Rel{FromType: "a", FromName: "a", ToOne: true, ToType: "a", ToName: "b"}}})
	c.Name = "witness-twoway-missing-second-type"
	m.history(c, []c14op{at("a"), {Op: "AddTwoWayRel", Rel: &jsonapi.Rel{FromType: "a", FromName: "f", ToType: "b", ToName: "ab"}}})
	c.Name = "witness-twoway-second-name-taken"
	m.history(c, []c14op{at("a"), at("b"), {Op: "AddRel", Type: "b", Rel: &jsonapi.Rel{FromType: "b", FromName: "ab", ToType: "a"}},
		{Op: "AddTwoWayRel", Rel: &jsonapi.Rel{FromType: "a", FromName: "f", ToType: "b", ToName: "ab"}}})
	m.ambiguity(c)
	c.Name = "witness-invalid-kind-nullable"
	m.history(c, []c14op{at("a"), {Op: "AddAttr", Type: "a", Attr: &jsonapi.Attr{Name: "f", Type: 99, Nullable: true}}})
	_ = sort.Strings
}
