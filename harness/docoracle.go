package main

import (
	"fmt"
	"net/url"
	"strings"
)

// resObj is a resource object found in marshaled output.
type resObj struct {
	V     *JV
	Where string // data | data[i] | included[i]
}

// resourceObjects lists the resource objects of a parsed document.
func resourceObjects(root *JV, identKind bool) []resObj {
	var out []resObj
	if data := root.Get("data"); data != nil && !identKind {
		switch data.Kind {
		case 'o':
			out = append(out, resObj{data, "data"})
		case 'a':
			for i, e := range data.Arr {
				out = append(out, resObj{e, fmt.Sprintf("data[%d]", i)})
			}
		}
	}
	if inc := root.Get("included"); inc != nil && inc.Kind == 'a' {
		for i, e := range inc.Arr {
			out = append(out, resObj{e, fmt.Sprintf("included[%d]", i)})
		}
	}
	return out
}

func normPrefix(p string) string {
	if !strings.HasSuffix(p, "/") {
		return p + "/"
	}
	return p
}

// validateStructure is the independent JSON:API structure validator of C03.
// It returns a clause name and a message ("" when well-formed).
func validateStructure(out []byte, prefix string, identKind bool, viaIncludeOnly bool) (string, string, *JV) {
	root, err := parseJV(out)
	if err != nil {
		return "invalid-json", err.Error(), nil
	}
	if d := root.dupKey(); d != "" {
		return "duplicate-member", fmt.Sprintf("member %q occurs twice in one object", d), root
	}
	if root.Kind != 'o' {
		return "top-level-not-object", "top level is not an object", root
	}
	if !root.Has("jsonapi") {
		return "no-jsonapi-member", "top level has no jsonapi member", root
	}
	links := root.Get("links")
	if links == nil || links.Kind != 'o' || links.Get("self") == nil {
		return "no-top-level-self-link", "top level has no links.self", root
	}
	if self := links.Get("self"); !(self.Kind == 's' || (self.Kind == 'o' && self.Get("href").IsStr())) {
		return "no-top-level-self-link", "links.self is neither a string nor an object with href", root
	}
	if root.Has("data") && root.Has("errors") {
		return "data-and-errors", "both data and errors are present", root
	}
	if root.Has("included") && !root.Has("data") {
		return "included-without-data", "included is present without data", root
	}
	if e := root.Get("errors"); e != nil && e.Kind != 'a' {
		return "errors-not-array", "errors is not an array", root
	}
	if data := root.Get("data"); data != nil {
		switch data.Kind {
		case 'n', 'o', 'a':
		default:
			return "data-kind", "data is neither null, an object nor an array", root
		}
	}
	if identKind {
		// identifier objects: string type and id
		data := root.Get("data")
		var ids []*JV
		if data != nil && data.Kind == 'o' {
			ids = []*JV{data}
		} else if data != nil && data.Kind == 'a' {
			ids = data.Arr
		}
		for _, v := range ids {
			if v.Kind != 'o' || !v.Get("type").IsStr() || !v.Get("id").IsStr() {
				return "identifier-shape", "an identifier lacks a string type or id", root
			}
		}
	}
	seen := map[string]string{}
	for _, ro := range resourceObjects(root, identKind) {
		v := ro.V
		if v.Kind != 'o' {
			return "resource-not-object", ro.Where + " is not an object", root
		}
		typ, id := v.Get("type"), v.Get("id")
		if !typ.IsStr() {
			return "resource-type", ro.Where + " has no string type", root
		}
		if !id.IsStr() {
			return "resource-id", ro.Where + " has no string id", root
		}
		self := v.Get("links").Get("self")
		if !self.IsStr() {
			return "resource-self-link", ro.Where + " has no links.self string", root
		}
		if id.Str != "" && typ.Str != "" {
			want := normPrefix(prefix) + typ.Str + "/" + id.Str
			wantEsc := normPrefix(prefix) + url.PathEscape(typ.Str) + "/" + url.PathEscape(id.Str)
			if self.Str != want && self.Str != wantEsc {
				return "resource-self-link-text", fmt.Sprintf("%s links.self is %q, prefix+type+id gives %q", ro.Where, self.Str, want), root
			}
		}
		if a := v.Get("attributes"); a != nil && a.Kind != 'o' {
			return "attributes-not-object", ro.Where + ".attributes is not an object", root
		}
		if rels := v.Get("relationships"); rels != nil {
			if rels.Kind != 'o' {
				return "relationships-not-object", ro.Where + ".relationships is not an object", root
			}
			for i, name := range rels.Keys {
				rel := rels.Vals[i]
				if rel.Kind != 'o' {
					return "relationship-not-object", fmt.Sprintf("%s relationship %q is not an object", ro.Where, name), root
				}
				l := rel.Get("links")
				if l == nil || !l.Get("self").IsStr() || !l.Get("related").IsStr() {
					return "relationship-links", fmt.Sprintf("%s relationship %q lacks links.self / links.related", ro.Where, name), root
				}
				if data := rel.Get("data"); data != nil {
					okIdent := func(x *JV) bool { return x.Kind == 'o' && x.Get("type").IsStr() && x.Get("id").IsStr() }
					switch data.Kind {
					case 'n':
					case 'o':
						if !okIdent(data) {
							return "relationship-data", fmt.Sprintf("%s relationship %q data is not a type/id identifier", ro.Where, name), root
						}
					case 'a':
						for _, x := range data.Arr {
							if !okIdent(x) {
								return "relationship-data", fmt.Sprintf("%s relationship %q data holds a non-identifier", ro.Where, name), root
							}
						}
					default:
						return "relationship-data", fmt.Sprintf("%s relationship %q data has a wrong JSON kind", ro.Where, name), root
					}
				}
			}
		}
		if viaIncludeOnly {
			key := typ.Str + "\x00" + id.Str
			if prev, dup := seen[key]; dup {
				return "duplicate-resource", fmt.Sprintf("%s/%s appears at %s and at %s", typ.Str, id.Str, prev, ro.Where), root
			}
			seen[key] = ro.Where
		}
	}
	return "", "", root
}

// checkSparse is C04's oracle over one parsed output.
func checkSparse(root *JV, d *DocSpec) (string, string) {
	byKey := map[string]*ResSpec{}
	for _, rs := range d.allResources() {
		byKey[rs.Type+"\x00"+rs.ID] = rs
	}
	for _, ro := range resourceObjects(root, d.Kind == "identifier" || d.Kind == "identifiers") {
		v := ro.V
		tn, id := v.Get("type"), v.Get("id")
		if !tn.IsStr() || !id.IsStr() {
			return "shape", ro.Where + " has no string type/id"
		}
		t := d.Schema.Type(tn.Str)
		if t == nil {
			return "unknown-type", fmt.Sprintf("%s has type %q which is not in the schema", ro.Where, tn.Str)
		}
		rs := byKey[tn.Str+"\x00"+id.Str]
		if rs == nil {
			return "unknown-resource", fmt.Sprintf("%s is %s/%s which the document does not hold", ro.Where, tn.Str, id.Str)
		}
		sel, hasSel := d.Fields[tn.Str]
		t = rs.ownType(t) // "its type": a resource may have fewer fields than the schema type of the same name
		var wantAttrs, wantRels []string
		if hasSel {
			for _, a := range t.AttrNames() {
				if contains(sel, a) {
					wantAttrs = append(wantAttrs, a)
				}
			}
			for _, rn := range t.RelNames() {
				if contains(sel, rn) {
					wantRels = append(wantRels, rn)
				}
			}
		}
		where := "primary"
		if strings.HasPrefix(ro.Where, "included") {
			where = "included"
		}
		var gotAttrs []string
		if a := v.Get("attributes"); a != nil {
			gotAttrs = a.Keys
		}
		if !sameSet(gotAttrs, wantAttrs) {
			cls := "attributes-leak"
			if len(sortedCopy(gotAttrs)) < len(wantAttrs) {
				cls = "attributes-missing"
			}
			if !hasSel {
				cls = "attributes-without-selection-entry"
			}
			return cls + "/" + where, fmt.Sprintf("%s (%s/%s) has attributes %v, selection %v of attributes %v gives %v", ro.Where, tn.Str, id.Str, gotAttrs, sel, t.AttrNames(), wantAttrs)
		}
		var gotRels []string
		rels := v.Get("relationships")
		if rels != nil {
			gotRels = rels.Keys
		}
		if !sameSet(gotRels, wantRels) {
			cls := "relationships-leak"
			if len(gotRels) < len(wantRels) {
				cls = "relationships-missing"
			}
			if !hasSel {
				cls = "relationships-without-selection-entry"
			}
			return cls + "/" + where, fmt.Sprintf("%s (%s/%s) has relationships %v, selection %v of relationships %v gives %v", ro.Where, tn.Str, id.Str, gotRels, sel, t.RelNames(), wantRels)
		}
		for _, rn := range wantRels {
			rel := t.Rel(rn)
			obj := rels.Get(rn)
			data := obj.Get("data")
			asked := contains(d.RelData[tn.Str], rn)
			if asked && data == nil {
				return "data-missing/" + where, fmt.Sprintf("%s relationship %q: data was requested (%v) but is absent", ro.Where, rn, d.RelData[tn.Str])
			}
			if !asked && data != nil {
				return "data-unrequested/" + where, fmt.Sprintf("%s relationship %q carries data although the document asks only for %v", ro.Where, rn, d.RelData[tn.Str])
			}
			if !asked {
				continue
			}
			if rel.ToOne {
				wantID := rs.ToOne[rn]
				if wantID == "" {
					if data.Kind != 'n' {
						return "to-one-data/" + where, fmt.Sprintf("%s relationship %q: empty to-one must be null, got %s", ro.Where, rn, data.canon())
					}
					continue
				}
				if data.Kind != 'o' || data.Get("id") == nil || data.Get("id").Str != wantID || data.Get("type") == nil || data.Get("type").Str != rel.ToType {
					return "to-one-data/" + where, fmt.Sprintf("%s relationship %q: data %s, want {%s,%s}", ro.Where, rn, data.canon(), rel.ToType, wantID)
				}
				continue
			}
			if data.Kind != 'a' {
				return "to-many-data/" + where, fmt.Sprintf("%s relationship %q: data %s is not an array", ro.Where, rn, data.canon())
			}
			var got []string
			for _, x := range data.Arr {
				if x.Kind != 'o' || !x.Get("id").IsStr() || !x.Get("type").IsStr() || x.Get("type").Str != rel.ToType {
					return "to-many-data/" + where, fmt.Sprintf("%s relationship %q: element %s is not an identifier of type %q", ro.Where, rn, x.canon(), rel.ToType)
				}
				got = append(got, x.Get("id").Str)
			}
			if !sameSet(got, rs.ToMany[rn]) {
				return "to-many-data/" + where, fmt.Sprintf("%s relationship %q lists %v, the resource is related to %v", ro.Where, rn, got, rs.ToMany[rn])
			}
		}
	}
	return "", ""
}
