package main

import (
	"fmt"

	"github.com/mfcochauxlaberge/jsonapi"
)

// C10 — filters evaluate according to their logical and comparison semantics.
type c10 struct{}

func init() { register(c10{}) }

func (c10) ID() string { return "C10" }
func (c10) Size(tier string) Size {
	if tier == "thorough" {
		return Size{Batches: 32, Cases: 12000}
	}
	return Size{Batches: 16, Cases: 2500}
}
func (c10) Rule() string {
	return "case = (kind, nullable) + a pair (resource value, filter value) drawn from the boundary pools (equal, adjacent, extreme, shared prefixes, nil on either side) evaluated under EVERY operator (= != < <= > >= in has and unknown ones) on a soft resource AND on a struct-backed one holding the same values, plus relationship leaves and random and/or trees (depth <= 8, chains to depth 200 in thorough). Oracle 1: my own evaluator (math/big, bytes.Compare, instants; nil equals only nil and is never ordered; bool and to-many never ordered; unknown operator false; empty and = true, empty or = false). Oracle 2: laws on the library's own answers (trichotomy, != is not =, <= is < or =, antisymmetry under swapping sides, soft == wrapped). Also: degenerate leaves (zero filter, operator without field, 'AND'/'Or'/'IN'/'HAS' and padded operators = unknown operators), one built *Filter node used at several places of one tree (and(g,g), or(g,g), and(g,or(g,x)), or(and(g,x),and(g,y))), re-evaluation of a built filter after its leaf values were changed in place, filter value being the very object the resource returned. Directed: pool x pool x operator product per kind (first 40 pool values per kind in quick, the whole pool in thorough). Non-trivial = distinct (kind, op, value pair) with a non-nil pair, or a tree with >= 2 leaves."
}
func (c10) Assumptions() []string {
	return []string{"filters are well-typed: the filter value has exactly the attribute's Go type (typed nil for nil), 'in' gets a list on a to-one, 'has' a string on a to-many",
		"ordering operators on to-one relationships are not judged (the statement orders attribute kinds only)"}
}
func (c10) Floors(tier string, c map[string]int64) []string {
	var out []string
	for _, k := range allKinds {
		for _, null := range []bool{false, true} {
			if c["pairs/"+kindName(k, null)] < 20 {
				out = append(out, "fewer than 20 value pairs for kind "+kindName(k, null))
			}
		}
	}
	for _, k := range []string{"trees", "leaf/in", "leaf/has", "nil_pairs", "impl/wrapped", "impl/soft", "answers/true", "answers/false", "self_compares", "reused_filters"} {
		if c[k] == 0 {
			out = append(out, "never observed: "+k)
		}
	}
	return out
}

var c10ops = []string{"=", "!=", "<", "<=", ">", ">=", "~"}

// evalLib runs one filter on one materialised resource, guarded.
func evalLib(f *FSpec, res jsonapi.Resource) (bool, *PanicInfo) {
	var ans bool
	pi := Guard(func() { ans = f.build().IsAllowed(res) })
	return ans, pi
}

func (m c10) pair(c *Ctx, k int, null bool, a, b Val, ress []jsonapi.Resource, specs []*TypeSpec, rs *ResSpec) {
	kn := kindName(k, null)
	c.Count("pairs/" + kn)
	if a.IsNil() || b.IsNil() {
		c.Count("nil_pairs")
	}
	ans := map[string][2]bool{}
	for _, op := range c10ops {
		f := &FSpec{Op: op, Field: "v", Val: &b}
		want := evalFilter(f, specs[0], rs)
		var got [2]bool
		for i, res := range ress {
			c.Count("evaluations")
			c.Count("impl/" + implName(specs[i]))
			g, pi := evalLib(f, res)
			if pi != nil {
				nilcls := "non-nil"
				if a.IsNil() {
					nilcls = "nil-resource-value"
				} else if b.IsNil() {
					nilcls = "nil-filter-value"
				}
				c.Violate("panic@"+pi.Frame+"/"+panicClass(pi.Val)+"/"+implName(specs[i])+"/"+nilcls, "IsAllowed(%s) on %s=%s: %s", f, kn, a, pi)
				return
			}
			got[i] = g
			if g {
				c.Count("answers/true")
			} else {
				c.Count("answers/false")
			}
			if g != want {
				cls := "non-nil"
				if a.IsNil() || b.IsNil() {
					cls = "nil"
				}
				opc := op
				if op == "~" {
					opc = "unknown-op"
				}
				c.Violate(fmt.Sprintf("semantics/%s/%s/%s/%s", kindNames[k], opc, cls, implName(specs[i])), "resource %s %s filter %s: IsAllowed=%v, the operator read as logic gives %v", a, op, b, g, want)
			}
		}
		if got[0] != got[1] {
			c.Violate("impl-disagree/"+kindNames[k]+"/"+op, "resource %s %s filter %s: soft=%v wrapped=%v", a, op, b, got[0], got[1])
		}
		ans[op] = got
	}
	// laws on the library's own answers
	for i := range ress {
		impl := implName(specs[i])
		eq, ne, lt, le, gt, ge := ans["="][i], ans["!="][i], ans["<"][i], ans["<="][i], ans[">"][i], ans[">="][i]
		if eq == ne {
			c.Violate("law/complement/"+kindNames[k]+"/"+impl, "%s vs %s: '='=%v and '!='=%v", a, b, eq, ne)
		}
		if !a.IsNil() && !b.IsNil() && orderedKind(k) {
			n := 0
			for _, x := range []bool{lt, eq, gt} {
				if x {
					n++
				}
			}
			if n != 1 {
				c.Violate("law/trichotomy/"+kindNames[k]+"/"+impl, "%s vs %s: <=%v ==%v >=%v (exactly one must hold)", a, b, lt, eq, gt)
			}
			if le != (lt || eq) || ge != (gt || eq) {
				c.Violate("law/le-ge/"+kindNames[k]+"/"+impl, "%s vs %s: <=%v ==%v >=%v but <= is %v and >= is %v", a, b, lt, eq, gt, le, ge)
			}
		} else if lt || le || gt || ge {
			c.Violate("law/never-ordered/"+kindNames[k]+"/"+impl, "%s vs %s (nil or unordered kind): <=%v <==%v >=%v >==%v", a, b, lt, le, gt, ge)
		}
	}
	if !a.IsNil() && !b.IsNil() {
		c.Nontrivial(kn + a.String() + "|" + b.String())
	}
}

// selfCompare evaluates every operator with the filter value being the very value the resource returns
// (same pointer / same slice), as a filter built from res.Get(...) would.
func (m c10) selfCompare(c *Ctx, k int, null bool, a Val, ress []jsonapi.Resource, specs []*TypeSpec) {
	for i, res := range ress {
		var own any
		if pi := Guard(func() { own = res.Get("v") }); pi != nil {
			return
		}
		if own == nil {
			continue // an untyped nil is not a well-typed filter value
		}
		for _, op := range c10ops {
			want := false
			switch {
			case a.IsNil():
				want = op == "="
			case op == "=" || ((op == "<=" || op == ">=") && orderedKind(k)):
				want = true
			}
			var got bool
			f := &jsonapi.Filter{Field: "v", Op: op, Val: own}
			if pi := Guard(func() { got = f.IsAllowed(res) }); pi != nil {
				c.Violate("panic@"+pi.Frame+"/"+panicClass(pi.Val)+"/self-compare", "%s %s itself: %s", kindName(k, null), op, pi)
				return
			}
			c.Count("self_compares")
			if got != want {
				c.Violate("semantics/self-compare/"+kindNames[k]+"/"+op+"/"+implName(specs[i]), "resource value %s %s the same value (same pointer): IsAllowed=%v, want %v", a, op, got, want)
			}
		}
	}
}

// reuse evaluates a built filter, then changes the values of its leaves in place and evaluates the same
// Filter object again: the verdict must follow the filter's current content.
func (m c10) reuse(c *Ctx, r *RNG, base *TypeSpec, res *ResSpec, tree *FSpec) {
	built := tree.build()
	var target jsonapi.Resource
	if pi := Guard(func() { target = buildResource(base, res); _ = built.IsAllowed(target) }); pi != nil {
		return
	}
	// mutate leaves of spec and built filter in parallel
	var walk func(fs *FSpec, bf *jsonapi.Filter)
	changed := 0
	walk = func(fs *FSpec, bf *jsonapi.Filter) {
		if fs.Op == "and" || fs.Op == "or" {
			kids, _ := bf.Val.([]*jsonapi.Filter)
			for i := range fs.Kids {
				if i < len(kids) {
					walk(&fs.Kids[i], kids[i])
				}
			}
			return
		}
		nl := genLeaf(r, base, res)
		if nl.Field != fs.Field || (nl.Val == nil) != (fs.Val == nil) || nl.IsList != fs.IsList || (nl.Str == nil) != (fs.Str == nil) || nl.Op != fs.Op {
			// keep the shape: only replace the value when the new leaf has the same shape
			if fs.IsList {
				fs.Strs = append(genToMany(r, 3), "extra-"+fmt.Sprint(changed))
				if fs.Op == "in" && r.Bool() {
					fs.Strs = append(fs.Strs, res.ToOne[fs.Field])
				}
				bf.Val = append([]string{}, fs.Strs...)
				changed++
			}
			return
		}
		*fs = nl
		nb := nl.build()
		bf.Val = nb.Val
		changed++
	}
	spec2 := *tree
	spec2.Kids = cloneKids(tree.Kids)
	walk(&spec2, built)
	if changed == 0 {
		return
	}
	want := evalFilter(&spec2, base, res)
	var got bool
	if pi := Guard(func() { got = built.IsAllowed(target) }); pi != nil {
		c.Violate("panic@"+pi.Frame+"/"+panicClass(pi.Val)+"/reuse", "%s", pi)
		return
	}
	c.Count("reused_filters")
	if got != want {
		c.Violate("semantics/reused-filter", "a Filter evaluated once and then given new leaf values answers %v, its current content read as logic gives %v; now %s on %s", got, want, clip(spec2.String(), 1200), jsonStr(res))
	}
}

// shared puts the SAME built *Filter node at several places of one tree (a filter assembled from reusable parts):
// and(g,g) and or(g,g) answer like g, and(g, or(g, x)) like g, or(and(g,x), and(g,y)) like g && (x || y).
func (m c10) shared(c *Ctx, r *RNG, base *TypeSpec, res *ResSpec, tree *FSpec, g bool) {
	x, y := genLeaf(r, base, res), genLeaf(r, base, res)
	vx, vy := evalFilter(&x, base, res), evalFilter(&y, base, res)
	var target jsonapi.Resource
	if pi := Guard(func() { target = buildResource(base, res) }); pi != nil {
		return
	}
	node := tree.build()
	and := func(k ...*jsonapi.Filter) *jsonapi.Filter { return &jsonapi.Filter{Op: "and", Val: k} }
	or := func(k ...*jsonapi.Filter) *jsonapi.Filter { return &jsonapi.Filter{Op: "or", Val: k} }
	bx, by := x.build(), y.build()
	forms := []struct {
		name string
		f    *jsonapi.Filter
		want bool
	}{
		{"and(g,g)", and(node, node), g},
		{"or(g,g)", or(node, node), g},
		{"and(g,or(g,x))", and(node, or(node, bx)), g},
		{"or(and(g,x),and(g,y))", or(and(node, bx), and(node, by)), g && (vx || vy)},
		{"and(or(x,g),or(y,g),g)", and(or(bx, node), or(by, node), node), g},
	}
	for _, fm := range forms {
		var got bool
		if pi := Guard(func() { got = fm.f.IsAllowed(target) }); pi != nil {
			c.Violate("panic@"+pi.Frame+"/"+panicClass(pi.Val)+"/shared-node", "%s: %s", fm.name, pi)
			return
		}
		c.Count("shared_node_trees")
		if got != fm.want {
			c.Violate("semantics/shared-node/"+fm.name, "%s with the same *Filter g used at every g: IsAllowed=%v, read as logic %v (g=%v x=%v y=%v); g=%s x=%s y=%s resource %s", fm.name, got, fm.want, g, vx, vy, clip(tree.String(), 800), x.String(), y.String(), jsonStr(res))
			return
		}
	}
}

// untouched evaluates filters on soft resources in states that only a caller who bypasses the usual Set calls
// reaches: a SoftResource literal on which no method was ever called (every field reads its zero value), and a
// resource whose type gained a field after its last use (the new field reads its zero value).
func (m c10) untouched(c *Ctx, base *TypeSpec, res *ResSpec, tree *FSpec) {
	zero := &ResSpec{Type: base.Name, Attrs: map[string]Val{}, ToOne: map[string]string{}, ToMany: map[string][]string{}}
	want := evalFilter(tree, base, zero)
	var got bool
	if pi := Guard(func() {
		typ := buildType(base)
		sr := &jsonapi.SoftResource{Type: &typ}
		got = tree.build().IsAllowed(sr)
	}); pi != nil {
		c.Violate("panic@"+pi.Frame+"/"+panicClass(pi.Val)+"/untouched-soft", "IsAllowed(%s) on a SoftResource literal nobody has used yet: %s", clip(tree.String(), 800), pi)
		return
	}
	c.Count("untouched_soft_resources")
	if got != want {
		c.Violate("semantics/untouched-soft", "IsAllowed=%v on a SoftResource literal nobody has used yet (all fields zero), read as logic %v; filter %s type %s", got, want, clip(tree.String(), 800), jsonStr(base))
		return
	}
	zv := Val{K: KInt, I: "0"}
	ten := Val{K: KInt, I: "10"}
	ext := *base
	ext.Attrs = append(append([]AttrSpec{}, base.Attrs...), AttrSpec{Name: "zz-late", Kind: KInt})
	ext.Rels = append(append([]RelSpec{}, base.Rels...), RelSpec{Name: "zz-late-rel", ToType: "x"})
	empty := ""
	for _, f := range []FSpec{{Op: "=", Field: "zz-late", Val: &zv}, {Op: "<", Field: "zz-late", Val: &ten}, {Op: ">=", Field: "zz-late", Val: &ten}, {Op: "!=", Field: "zz-late", Val: &zv},
		{Op: "has", Field: "zz-late-rel", Str: &empty}, {Op: "=", Field: "zz-late-rel", IsList: true, Strs: []string{}}} {
		f := f
		want := evalFilter(&f, &ext, res)
		if pi := Guard(func() {
			sr := buildResource(base, res).(*jsonapi.SoftResource)
			_ = sr.Type.AddAttr(jsonapi.Attr{Name: "zz-late", Type: jsonapi.AttrTypeInt})
			_ = sr.Type.AddRel(jsonapi.Rel{FromType: base.Name, FromName: "zz-late-rel", ToType: "x"})
			got = f.build().IsAllowed(sr)
		}); pi != nil {
			c.Violate("panic@"+pi.Frame+"/"+panicClass(pi.Val)+"/late-field", "IsAllowed(%s) right after the resource's type gained the field: %s", f.String(), pi)
			return
		}
		c.Count("late_field_filters")
		if got != want {
			c.Violate("semantics/late-field/"+f.Op, "IsAllowed=%v for %s right after the resource's type gained the field (it reads its zero value), read as logic %v", got, f.String(), want)
			return
		}
	}
}

func cloneKids(in []FSpec) []FSpec {
	out := make([]FSpec, len(in))
	for i := range in {
		out[i] = in[i]
		out[i].Kids = cloneKids(in[i].Kids)
		out[i].Strs = append([]string{}, in[i].Strs...)
	}
	return out
}

// antisymmetry: (a < b) on resource a / filter b must equal (b > a) on resource b / filter a.
func (m c10) antisym(c *Ctx, k int, null bool, a, b Val, t *TypeSpec) {
	if a.IsNil() || b.IsNil() || !orderedKind(k) {
		return
	}
	ra := &ResSpec{Type: t.Name, ID: "1", Attrs: map[string]Val{"v": a}}
	rb := &ResSpec{Type: t.Name, ID: "2", Attrs: map[string]Val{"v": b}}
	var x, y bool
	if pi := Guard(func() {
		x = (&FSpec{Op: "<", Field: "v", Val: &b}).build().IsAllowed(buildResource(t, ra))
		y = (&FSpec{Op: ">", Field: "v", Val: &a}).build().IsAllowed(buildResource(t, rb))
	}); pi != nil {
		return
	}
	c.Count("antisymmetry_checks")
	if x != y {
		c.Violate("law/antisymmetry/"+kindNames[k], "(%s < %s)=%v but (%s > %s)=%v", a, b, x, b, a, y)
	}
}

func c10type(k int, null, wrapped bool) TypeSpec {
	return TypeSpec{Name: "t", Wrapped: wrapped, Attrs: []AttrSpec{{Name: "v", Kind: k, Null: null}, {Name: "w", Kind: KInt}},
		Rels: []RelSpec{{Name: "one", ToOne: true, ToType: "t"}, {Name: "many", ToType: "t"}}}
}

func (m c10) setup(k int, null bool, a Val) ([]*TypeSpec, *ResSpec, []jsonapi.Resource, *PanicInfo) {
	soft, wrapped := c10type(k, null, false), c10type(k, null, true)
	specs := []*TypeSpec{&soft, &wrapped}
	rs := &ResSpec{Type: "t", ID: "1", Attrs: map[string]Val{"v": a, "w": {K: KInt, I: "5"}}, ToOne: map[string]string{"one": "x"}, ToMany: map[string][]string{"many": {"b", "a"}}}
	var ress []jsonapi.Resource
	pi := Guard(func() {
		for _, t := range specs {
			ress = append(ress, buildResource(t, rs))
		}
	})
	return specs, rs, ress, pi
}

var c10invalidUTF8 = []string{"\xff", "\xfe", "a\xff", "a\U00010000", "a\uffff", "k\xc3", "k\xc3\xa9", "\xe4\xb8", "\xe4\xb9", "id-\x80", "id-\x81", "\xef\xbf\xbd", "\xed\xa0\x80", "\xc0\xaf"}

func (m c10) Case(c *Ctx, r *RNG) {
	k := allKinds[r.Intn(len(allKinds))]
	null := r.Bool()
	a := genVal(r, k, null)
	b := genVal(r, k, null)
	b.UNil = false
	if b.Null && !b.Nil && r.Chance(1, 8) {
		b = Val{K: k, Null: true, Nil: true}
	}
	switch r.Intn(6) {
	case 0:
		b = a
		b.UNil = false
		if a.UNil {
			b.Nil = true
		}
	case 1: // adjacent / prefix-sharing
		if !a.IsNil() {
			b = differentVal(a)
		}
	}
	if k == KString && !a.IsNil() && !b.IsNil() && r.Chance(1, 5) {
		// Go strings need not be valid UTF-8: the order is the byte-wise one
		a.S, b.S = r.Pick(c10invalidUTF8), r.Pick(c10invalidUTF8)
		c.Count("string_pairs_with_invalid_utf8")
	}
	specs, rs, ress, pi := m.setup(k, null, a)
	if pi != nil {
		c.Violate("panic@"+pi.Frame+"/build", "%s", pi)
		return
	}
	m.pair(c, k, null, a, b, ress, specs, rs)
	m.antisym(c, k, null, a, b, specs[0])
	m.selfCompare(c, k, null, a, ress, specs)

	// relationship leaves and trees over a richer type
	s := genSchema(r, genOpts{MaxTypes: 1, MaxAttrs: 5, MaxRels: 3, AllowWrap: false})
	base := s.Types[0]
	base.NilMaps = false
	res := genResource(r, &base, genID(r))
	soft, wrapped := base, base
	wrapped.Wrapped = true
	var tree FSpec
	switch r.Intn(4) {
	case 0:
		tree = genLeaf(r, &base, res)
	case 1:
		tree = genChain(r, &base, res, c.Pick(r.Range(1, 60), r.Range(1, 200)))
	default:
		tree = genTree(r, &base, res, r.Range(1, 8))
	}
	want := evalFilter(&tree, &base, res)
	var got [2]bool
	for i, t := range []*TypeSpec{&soft, &wrapped} {
		var built jsonapi.Resource
		if pi := Guard(func() { built = buildResource(t, res) }); pi != nil {
			c.Violate("panic@"+pi.Frame+"/build", "%s", pi)
			return
		}
		c.Count("evaluations")
		g, pi := evalLib(&tree, built)
		if pi != nil {
			c.Violate("panic@"+pi.Frame+"/"+panicClass(pi.Val)+"/tree/"+implName(t), "IsAllowed(%s) on %s: %s", clip(tree.String(), 1500), jsonStr(res), pi)
			return
		}
		got[i] = g
		if g != want {
			cls := "tree"
			if tree.Op != "and" && tree.Op != "or" {
				cls = "leaf/" + tree.Op
				if t.Rel(tree.Field) != nil {
					cls += "/rel"
				}
			}
			c.Violate("semantics/"+cls+"/"+implName(t), "IsAllowed=%v, the tree read as logic gives %v; filter %s on type %s resource %s", g, want, clip(tree.String(), 1500), jsonStr(t), jsonStr(res))
			return
		}
	}
	if got[0] != got[1] {
		c.Violate("impl-disagree/tree", "soft=%v wrapped=%v for %s", got[0], got[1], clip(tree.String(), 1000))
	}
	c.Count("trees")
	m.reuse(c, r, &base, res, &tree)
	m.shared(c, r, &base, res, &tree, want)
	m.untouched(c, &base, res, &tree)
	if tree.Op != "and" && tree.Op != "or" {
		c.Count("leaf/" + tree.Op)
	}
	if tree.leaves() >= 2 {
		c.Nontrivial("tree" + tree.String() + jsonStr(res))
	}
	if c.Index < 2 {
		c.Sample(map[string]any{"kind": kindName(k, null), "resource_value": a, "filter_value": b, "tree": tree, "tree_resource": res})
	}
}

func (m c10) Directed(c *Ctx) {
	sameNameCheck(c, "C10")
	limit := c.Pick(40, 1<<30)
	c.Name = "pool-product"
	for _, k := range allKinds {
		for _, null := range []bool{false, true} {
			pool := poolValues(k, null)
			if len(pool) > limit {
				// keep both ends of the pool (boundaries first) in quick
				pool = append(append([]Val{}, pool[:limit/2]...), pool[len(pool)-limit/2:]...)
			}
			for _, a := range pool {
				specs, rs, ress, pi := m.setup(k, null, a)
				if pi != nil {
					c.Violate("panic@"+pi.Frame+"/build", "%s", pi)
					continue
				}
				for _, b := range pool {
					if b.UNil {
						continue
					}
					m.pair(c, k, null, a, b, ress, specs, rs)
				}
				m.selfCompare(c, k, null, a, ress, specs)
			}
		}
	}
	c.Extra["exhaustive_subspaces"] = []string{fmt.Sprintf("value pool x value pool x {= != < <= > >= unknown} x {soft, wrapped} for each of the 28 kinds (pool capped at %d values per kind in quick, uncapped in thorough)", limit)}
	// logic base cases
	c.Name = "empty-and-or"
	t := c10type(KInt, false, false)
	rs := &ResSpec{Type: "t", ID: "1"}
	for _, f := range []FSpec{{Op: "and"}, {Op: "or"}, {Op: "and", Kids: []FSpec{{Op: "or"}}}, {Op: "or", Kids: []FSpec{{Op: "and"}}}} {
		f := f
		g, pi := evalLib(&f, buildResource(&t, rs))
		if pi != nil {
			c.Violate("panic@"+pi.Frame+"/empty-tree", "%s", pi)
			continue
		}
		if g != evalFilter(&f, &t, rs) {
			c.Violate("semantics/tree/empty", "%s evaluates to %v", f.String(), g)
		}
	}
	// deep, narrow trees whose verdict hangs on the innermost node: "up to any depth"
	c.Name = "deep-and-or"
	for _, depth := range []int{8, 16, 31, 32, 33, 34, 35, 48, 64, 65, 100, 128, 129, 200, 256, 257, 500} {
		for _, inner := range []FSpec{{Op: "and"}, {Op: "or"}} {
			f := inner
			for i := 0; i < depth; i++ {
				if i%2 == 0 {
					f = FSpec{Op: "and", Kids: []FSpec{f, {Op: "and"}}}
				} else {
					f = FSpec{Op: "or", Kids: []FSpec{{Op: "or"}, f}}
				}
			}
			g, pi := evalLib(&f, buildResource(&t, rs))
			c.Count("deep_trees")
			if pi != nil {
				c.Violate("panic@"+pi.Frame+"/deep-tree", "depth %d: %s", depth, pi)
				continue
			}
			if want := evalFilter(&f, &t, rs); g != want {
				c.Violate("semantics/tree/deep", "a chain of %d and/or nodes around %s evaluates to %v, want %v", depth, inner.String(), g, want)
			}
		}
	}
	c.Name = "witness-bytes-order"
	a, b := Val{K: KBytes, Bytes: []byte{2, 1}}, Val{K: KBytes, Bytes: []byte{1, 2}}
	specs, rs2, ress, _ := m.setup(KBytes, false, a)
	m.pair(c, KBytes, false, a, b, ress, specs, rs2)
	c.Name = "witness-wrapped-nil-equals-nil"
	n := Val{K: KString, Null: true, Nil: true}
	specs, rs2, ress, _ = m.setup(KString, true, n)
	m.pair(c, KString, true, n, n, ress, specs, rs2)
}
