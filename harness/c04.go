package main

import (
	"fmt"
	"strings"

	"github.com/mfcochauxlaberge/jsonapi"
)

// C04 — sparse fieldsets and relationship data are honoured exactly.
type c04 struct{}

func init() { register(c04{}) }

func (c04) ID() string { return "C04" }
func (c04) Size(tier string) Size {
	if tier == "thorough" {
		return Size{Batches: 32, Cases: 7000}
	}
	return Size{Batches: 16, Cases: 1500}
}
func (c04) Rule() string {
	return "case = document over a random schema of 1-3 soft / struct-backed types with resources as primary data (single, Resources / SoftCollection / WrapperCollection members) and as included resources of different types; url.Params.Fields is built directly (missing entry, empty list, all, random subsets, 'id', unknown names, duplicates) and Document.RelData is a random subset of each type's relationships (+ unknown names). A third of the URLs carry a Params.RelData naming every relationship (only the document's own request counts). Every document is marshaled a second time (same Document value, URL selecting every field) and judged again: what the first call did with the caller's lists must not show. Oracle: for every resource object of the output, attribute names == attrs(type) ∩ selection, relationship names == rels(type) ∩ selection, data present iff requested, data == the spec's related IDs with the target type (null for an empty to-one), nothing without a selection entry. Directed: for a 3-attribute/3-relationship type EVERY subset as selection x EVERY subset as relationship-data request, in primary, collection-member and included position, soft and wrapped. Non-trivial = selection is a proper non-empty subset for at least one type; distinct = spec hash."
}
func (c04) Assumptions() []string {
	return []string{"IDs are unique within one document so that an output object can be matched to its spec; the output is read by my own JSON walk"}
}
func (c04) Floors(tier string, c map[string]int64) []string {
	var out []string
	for _, k := range []string{"objects/primary", "objects/included", "sel/missing-entry", "sel/empty", "sel/proper-subset", "rel_data_present", "rel_data_absent", "holder/SoftCollection", "holder/WrapperCollection", "holder/Resources", "direct/MarshalResource", "direct/MarshalCollection"} {
		if c[k] == 0 {
			out = append(out, "never observed: "+k)
		}
	}
	return out
}

func (m c04) run(c *Ctx, d *DocSpec) {
	c.Count("evaluations")
	var out []byte
	var err error
	var b *docBuilt
	violationsBefore := c.Counters["violations_observed"]
	if pi := Guard(func() {
		b = d.build()
		out, err = jsonapi.MarshalDocument(b.Doc, b.URL)
	}); pi != nil {
		c.Violate("panic@"+pi.Frame+"/"+panicClass(pi.Val), "MarshalDocument: %s; doc %s", pi, clip(jsonStr(d), 2500))
		return
	}
	// the same Document (same relationship-data request, the caller's own lists) answered again for a request that
	// selects every field: what the first call did with the lists it was given must not show in the second answer
	defer func() {
		if c.Counters["violations_observed"] != violationsBefore || b == nil || len(d.Errors) > 0 {
			return
		}
		d2 := *d
		d2.Fields = map[string][]string{}
		for i := range d.Schema.Types {
			d2.Fields[d.Schema.Types[i].Name] = d.Schema.Types[i].FieldNames()
		}
		var out2 []byte
		var err2 error
		if pi := Guard(func() {
			u2 := *b.URL
			p2 := *b.URL.Params
			p2.Fields = copyStrMap(d2.Fields)
			u2.Params = &p2
			out2, err2 = jsonapi.MarshalDocument(b.Doc, &u2)
		}); pi != nil {
			c.Violate("panic@"+pi.Frame+"/"+panicClass(pi.Val)+"/second-request", "MarshalDocument: %s; doc %s", pi, clip(jsonStr(d), 2500))
			return
		}
		if err2 != nil {
			return
		}
		root2, perr := parseJV(out2)
		if perr != nil {
			return
		}
		c.Count("second_requests_on_the_same_document")
		if cl, msg := checkSparse(root2, &d2); cl != "" {
			c.Violate(cl+"/second-request", "the same Document marshaled again with every field selected: %s; output %s; doc %s", msg, clip(string(out2), 1500), clip(jsonStr(d), 2500))
		}
	}()
	if err != nil {
		c.Violate("marshal-error", "MarshalDocument: %v; doc %s", err, clip(jsonStr(d), 2500))
		return
	}
	root, perr := parseJV(out)
	if perr != nil {
		c.Violate("invalid-json", "%v: %s", perr, clip(string(out), 500))
		return
	}
	if cl, msg := checkSparse(root, d); cl != "" {
		c.Violate(cl, "%s; output %s; doc %s", msg, clip(string(out), 1500), clip(jsonStr(d), 2500))
		return
	}
	// bookkeeping
	proper := false
	for _, ro := range resourceObjects(root, false) {
		if ro.Where[0] == 'd' {
			c.Count("objects/primary")
		} else {
			c.Count("objects/included")
		}
		if rels := ro.V.Get("relationships"); rels != nil {
			for _, rv := range rels.Vals {
				if rv.Has("data") {
					c.Count("rel_data_present")
				} else {
					c.Count("rel_data_absent")
				}
			}
		}
	}
	for i := range d.Schema.Types {
		t := &d.Schema.Types[i]
		sel, ok := d.Fields[t.Name]
		switch {
		case !ok:
			c.Count("sel/missing-entry")
		case len(sel) == 0:
			c.Count("sel/empty")
		default:
			n := 0
			for _, f := range t.FieldNames() {
				if contains(sel, f) {
					n++
				}
			}
			if n > 0 && n < len(t.FieldNames()) {
				c.Count("sel/proper-subset")
				proper = true
			}
		}
	}
	if d.Holder != "" {
		c.Count("holder/" + d.Holder)
	}
	// the other two entry points with the same selection and request: MarshalResource on each resource and
	// MarshalCollection on a Resources collection of all of them (wrapped into a document shape for the oracle)
	if all := d.allResources(); len(all) > 0 {
		var parts []string
		var colOut []byte
		if pi := Guard(func() {
			col := &jsonapi.Resources{}
			for _, rs := range all {
				t := rs.ownType(d.Schema.Type(rs.Type))
				res := buildResource(t, rs)
				parts = append(parts, string(jsonapi.MarshalResource(res, d.Prefix, append([]string{}, d.Fields[rs.Type]...), copyStrMap(d.RelData))))
				col.Add(buildResource(t, rs))
			}
			colOut = jsonapi.MarshalCollection(col, d.Prefix, copyStrMap(d.Fields), copyStrMap(d.RelData))
		}); pi != nil {
			c.Violate("panic@"+pi.Frame+"/"+panicClass(pi.Val)+"/direct", "%s; doc %s", pi, clip(jsonStr(d), 2000))
			return
		}
		for name, text := range map[string]string{"MarshalResource": `{"data":[` + strings.Join(parts, ",") + `]}`, "MarshalCollection": `{"data":` + string(colOut) + `}`} {
			root2, err := parseJV([]byte(text))
			if err != nil {
				c.Violate("invalid-json/"+name, "%v: %s", err, clip(text, 400))
				return
			}
			saved := d.Kind
			d.Kind = "collection"
			cl, msg := checkSparse(root2, d)
			d.Kind = saved
			if cl != "" {
				c.Violate(cl+"/"+name, "%s; output %s; doc %s", msg, clip(text, 1200), clip(jsonStr(d), 2000))
				return
			}
			c.Count("direct/" + name)
		}
	}
	if proper && len(d.allResources()) > 0 {
		c.Nontrivial(jsonStr(d))
	}
}

func (m c04) Case(c *Ctx, r *RNG) {
	d := genDoc(r, docOpts{MaxPrimary: c.Pick(5, 12), MaxIncluded: c.Pick(5, 12), UniqueIDs: true})
	if d.Kind == "null" || d.Kind == "identifier" || d.Kind == "identifiers" {
		// C04 is about resource objects: make sure some exist
		if len(d.Included) == 0 {
			d.Kind = "resource"
			t := &d.Schema.Types[0]
			d.Primary = []*ResSpec{genResource(r, t, "primary-1")}
		}
	}
	// some resources have a type of their own with fewer fields than the schema type of the same name (what
	// UnmarshalPartialResource returns): "the attributes of ITS type"
	if d.Kind == "resource" || (d.Kind == "collection" && d.Holder == "Resources") || len(d.Included) > 0 {
		pool := d.Included
		if d.Kind == "resource" || d.Holder == "Resources" {
			pool = append(append([]*ResSpec{}, d.Primary...), d.Included...)
		}
		for i, rs := range pool {
			if r.Chance(1, 4) {
				t := d.Schema.Type(rs.Type)
				cp := *rs
				cp.Only = subsetStrings(r, t.FieldNames())
				if cp.Only == nil {
					cp.Only = []string{}
				}
				*pool[i] = cp
				c.Count("resources_with_fewer_fields_than_their_schema_type")
			}
		}
	}
	if c.Index < 2 {
		c.Sample(d)
	}
	m.run(c, d)
}

func (m c04) Directed(c *Ctx) {
	c.Name = "all-subsets"
	r := NewRNG(4)
	for _, wrapped := range []bool{false, true} {
		t := TypeSpec{Name: "t", Wrapped: wrapped, Attrs: []AttrSpec{{Name: "a1", Kind: KString}, {Name: "a2", Kind: KInt, Null: true}, {Name: "a3", Kind: KBytes}},
			Rels: []RelSpec{{Name: "r1", ToOne: true, ToType: "u"}, {Name: "r2", ToType: "u"}, {Name: "r3", ToOne: true, ToType: "t"}}}
		u := TypeSpec{Name: "u", Attrs: []AttrSpec{{Name: "x", Kind: KBool}}, Rels: []RelSpec{{Name: "back", ToType: "t"}}}
		s := &SchemaSpec{Types: []TypeSpec{t, u}}
		fields := t.FieldNames()
		rels := t.RelNames()
		for fm := 0; fm < 1<<len(fields); fm++ {
			var sel []string
			for i, f := range fields {
				if fm&(1<<i) != 0 {
					sel = append(sel, f)
				}
			}
			for rm := 0; rm < 1<<len(rels); rm++ {
				var rd []string
				for i, f := range rels {
					if rm&(1<<i) != 0 {
						rd = append(rd, f)
					}
				}
				for pos := 0; pos < 3; pos++ {
					d := &DocSpec{Schema: s, Prefix: "/", Fields: map[string][]string{"t": shuffleStrings(r, sel), "u": {"x"}}, RelData: map[string][]string{"t": rd, "u": {"back"}}, Frags: []string{"t"}}
					rs := &ResSpec{Type: "t", ID: "1", Attrs: map[string]Val{"a1": {K: KString, S: "v"}}, ToOne: map[string]string{"r1": "u1", "r3": ""}, ToMany: map[string][]string{"r2": {"u2", "u1"}}}
					other := &ResSpec{Type: "u", ID: "u1", ToMany: map[string][]string{"back": {"1"}}}
					switch pos {
					case 0:
						d.Kind, d.Primary, d.Included = "resource", []*ResSpec{rs}, []*ResSpec{other}
					case 1:
						d.Kind, d.Holder, d.ColType = "collection", []string{"Resources", "SoftCollection", "WrapperCollection"}[(fm+rm)%3], "t"
						d.Primary = []*ResSpec{rs, {Type: "t", ID: "2", ToOne: map[string]string{"r1": "", "r3": "1"}, ToMany: map[string][]string{"r2": {}}}}
					default:
						d.Kind, d.Primary, d.Included = "resource", []*ResSpec{other}, []*ResSpec{rs}
						d.Frags = []string{"u", "u1"}
					}
					m.run(c, d)
				}
			}
		}
	}
	c.Extra["exhaustive_subspaces"] = []string{fmt.Sprintf("every subset of a 6-field type as selection (64) x every subset of its 3 relationships as relationship-data request (8) x {primary, collection member, included} x {soft, wrapped}")}
}
